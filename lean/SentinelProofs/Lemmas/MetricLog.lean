import Sentinel.MetricLog
import SentinelProofs.Props.C18
/-! Helper lemmas for C19: bytes (big-endian numbers, lines, UTF-8), the index search, directories. -/
namespace Sentinel.MLog
open Sentinel

/-! ### big-endian u64 -/

theorem be64_length (n : Nat) : (be64 n).length = 8 := rfl

theorem unbe64_be64 (n : Nat) (rest : Bytes) (h : n < 18446744073709551616) : unbe64 (be64 n ++ rest) = some n := by
  simp only [be64, unbe64, List.cons_append, List.nil_append, unbe8]
  congr 1
  omega

def encEntry (e : Nat × Nat) : Bytes := be64 e.1 ++ be64 e.2

theorem encEntry_length (e : Nat × Nat) : (encEntry e).length = 16 := rfl

theorem findEntry_short (t : Bytes) (b : Nat) (h : t.length < 16) : findEntry t b = none := by
  unfold findEntry
  split
  · simp only [List.length_cons] at h; omega
  · rfl

theorem findEntry_cons (e : Nat × Nat) (rest : Bytes) (b : Nat) (h1 : e.1 < 18446744073709551616) (h2 : e.2 < 18446744073709551616) :
    findEntry (encEntry e ++ rest) b = if e.1 ≥ b then some e else findEntry rest b := by
  have e1 : unbe8 (e.1 / 72057594037927936 % 256) (e.1 / 281474976710656 % 256) (e.1 / 1099511627776 % 256) (e.1 / 4294967296 % 256)
      (e.1 / 16777216 % 256) (e.1 / 65536 % 256) (e.1 / 256 % 256) (e.1 % 256) = e.1 := by unfold unbe8; omega
  have e2 : unbe8 (e.2 / 72057594037927936 % 256) (e.2 / 281474976710656 % 256) (e.2 / 1099511627776 % 256) (e.2 / 4294967296 % 256)
      (e.2 / 16777216 % 256) (e.2 / 65536 % 256) (e.2 / 256 % 256) (e.2 % 256) = e.2 := by unfold unbe8; omega
  simp only [encEntry, be64, List.cons_append, List.nil_append]
  rw [findEntry]
  simp only [e1, e2]

/-! ### lines -/

theorem splitLines_line (l rest : Bytes) (h : 10 ∉ l) : splitLines (l ++ 10 :: rest) = l :: splitLines rest := by
  induction l with
  | nil => simp [splitLines]
  | cons c cs ih =>
    have hc : c ≠ 10 := fun e => h (by simp [e])
    have hcs : 10 ∉ cs := fun e => h (by simp [e])
    simp only [List.cons_append, splitLines, hc, if_false, ih hcs]

theorem splitLines_tail (l : Bytes) (h : 10 ∉ l) (hne : l ≠ []) : splitLines l = [l] := by
  induction l with
  | nil => exact absurd rfl hne
  | cons c cs ih =>
    have hc : c ≠ 10 := fun e => h (by simp [e])
    have hcs : 10 ∉ cs := fun e => h (by simp [e])
    simp only [splitLines, hc, if_false]
    cases cs with
    | nil => simp [splitLines]
    | cons d ds => rw [ih hcs (by simp)]

/-! ### UTF-8: decoding what was encoded -/

theorem char_valid_nat (c : Char) : c.toNat < 55296 ∨ (57343 < c.toNat ∧ c.toNat < 1114112) := by
  have h := c.valid
  unfold UInt32.isValidChar Nat.isValidChar at h
  unfold Char.toNat
  omega

theorem utf8Decode_char (fuel : Nat) (c : Char) (rest : Bytes) :
    utf8Decode (fuel + 1) (utf8EncodeChar c ++ rest) = (utf8Decode fuel rest).map (c :: ·) := by
  have hv := char_valid_nat c
  have hc : Char.ofNat c.toNat = c := Char.ofNat_toNat c
  unfold utf8EncodeChar
  simp only []
  by_cases h1 : c.toNat < 128
  · simp only [h1, if_true, List.cons_append, List.nil_append, utf8Decode, hc]
  · by_cases h2 : c.toNat < 2048
    · have a1 : ¬ (192 + c.toNat / 64 < 128) := by omega
      have a2 : 194 ≤ 192 + c.toNat / 64 ∧ 192 + c.toNat / 64 < 224 := by omega
      have a3 : isCont (128 + c.toNat % 64) = true := by simp [isCont]; omega
      have a4 : (192 + c.toNat / 64 - 192) * 64 + (128 + c.toNat % 64 - 128) = c.toNat := by omega
      simp only [h1, h2, if_true, if_false, List.cons_append, List.nil_append, utf8Decode, a1, a2, a3, a4, hc, and_self]
    · by_cases h3 : c.toNat < 65536
      · have a1 : ¬ (224 + c.toNat / 4096 < 128) := by omega
        have a2 : ¬ (194 ≤ 224 + c.toNat / 4096 ∧ 224 + c.toNat / 4096 < 224) := by omega
        have a2' : 224 ≤ 224 + c.toNat / 4096 ∧ 224 + c.toNat / 4096 < 240 := by omega
        have a3 : isCont (128 + c.toNat / 64 % 64) = true := by simp [isCont]; omega
        have a3' : isCont (128 + c.toNat % 64) = true := by simp [isCont]; omega
        have a5 : ((224 + c.toNat / 4096 != 224) || decide (160 ≤ 128 + c.toNat / 64 % 64)) = true := by
          simp only [bne_iff_ne, ne_eq, Bool.or_eq_true, decide_eq_true_eq]; omega
        have a6 : ((224 + c.toNat / 4096 != 237) || decide (128 + c.toNat / 64 % 64 < 160)) = true := by
          simp only [bne_iff_ne, ne_eq, Bool.or_eq_true, decide_eq_true_eq]; omega
        have a4 : (224 + c.toNat / 4096 - 224) * 4096 + (128 + c.toNat / 64 % 64 - 128) * 64 + (128 + c.toNat % 64 - 128) = c.toNat := by omega
        simp only [h1, h2, h3, if_true, if_false, List.cons_append, List.nil_append, utf8Decode, a1, a2, a2', a3, a3', a4, a5, a6, hc, and_self, Bool.and_self]
      · have a1 : ¬ (240 + c.toNat / 262144 < 128) := by omega
        have a2 : ¬ (194 ≤ 240 + c.toNat / 262144 ∧ 240 + c.toNat / 262144 < 224) := by omega
        have a2' : ¬ (224 ≤ 240 + c.toNat / 262144 ∧ 240 + c.toNat / 262144 < 240) := by omega
        have a2'' : 240 ≤ 240 + c.toNat / 262144 ∧ 240 + c.toNat / 262144 < 245 := by omega
        have a3 : isCont (128 + c.toNat / 4096 % 64) = true := by simp [isCont]; omega
        have a3' : isCont (128 + c.toNat / 64 % 64) = true := by simp [isCont]; omega
        have a3'' : isCont (128 + c.toNat % 64) = true := by simp [isCont]; omega
        have a5 : ((240 + c.toNat / 262144 != 240) || decide (144 ≤ 128 + c.toNat / 4096 % 64)) = true := by
          simp only [bne_iff_ne, ne_eq, Bool.or_eq_true, decide_eq_true_eq]; omega
        have a6 : ((240 + c.toNat / 262144 != 244) || decide (128 + c.toNat / 4096 % 64 < 144)) = true := by
          simp only [bne_iff_ne, ne_eq, Bool.or_eq_true, decide_eq_true_eq]; omega
        have a4 : (240 + c.toNat / 262144 - 240) * 262144 + (128 + c.toNat / 4096 % 64 - 128) * 4096 + (128 + c.toNat / 64 % 64 - 128) * 64 + (128 + c.toNat % 64 - 128) = c.toNat := by omega
        simp only [h1, h2, h3, if_true, if_false, List.cons_append, List.nil_append, utf8Decode, a1, a2, a2', a2'', a3, a3', a3'', a4, a5, a6, hc, and_self, Bool.and_self]

theorem utf8Decode_encode (cs : List Char) (fuel : Nat) (h : cs.length < fuel) : utf8Decode fuel (utf8Encode cs) = some cs := by
  induction cs generalizing fuel with
  | nil => cases fuel with
    | zero => omega
    | succ f => simp [utf8Encode, utf8Decode]
  | cons c cs ih =>
    cases fuel with
    | zero => omega
    | succ f =>
      have : utf8Encode (c :: cs) = utf8EncodeChar c ++ utf8Encode cs := by simp [utf8Encode]
      rw [this, utf8Decode_char, ih f (by simp at h; omega)]
      rfl

theorem utf8EncodeChar_length_pos (c : Char) : 1 ≤ (utf8EncodeChar c).length := by
  unfold utf8EncodeChar; simp only []; repeat' split
  all_goals simp

theorem utf8Encode_length (cs : List Char) : cs.length ≤ (utf8Encode cs).length := by
  induction cs with
  | nil => simp [utf8Encode]
  | cons c cs ih =>
    have : utf8Encode (c :: cs) = utf8EncodeChar c ++ utf8Encode cs := by simp [utf8Encode]
    rw [this, List.length_append, List.length_cons]
    have := utf8EncodeChar_length_pos c
    omega

theorem decodeUtf8_encode (cs : List Char) : decodeUtf8 (utf8Encode cs) = some cs := by
  unfold decodeUtf8
  exact utf8Decode_encode cs _ (by have := utf8Encode_length cs; omega)

/-! ### a printed item is one line, and reads back -/

/-- not a line break -/
def plainC (c : Char) : Prop := c ≠ '\n' ∧ c ≠ '\r'

theorem digitChar_plain (d : Nat) : plainC (digitChar d) := by
  unfold digitChar plainC; split <;> decide

theorem printNat_plain (n : Nat) : ∀ c ∈ printNat n, plainC c := by
  intro c h
  unfold printNat at h
  obtain ⟨d, _, hd⟩ := List.mem_map.mp h
  exact hd ▸ digitChar_plain d

theorem timeStr_plain (ts : Nat) : ∀ c ∈ timeStr ts, plainC c := by
  intro c h
  unfold timeStr pad2 at h
  simp only [List.cons_append, List.nil_append, List.mem_cons, List.not_mem_nil, or_false] at h
  rcases h with e | e | e | e | e | e | e | e <;> subst e <;> first | exact digitChar_plain _ | (unfold plainC; decide)

theorem sanitize_plain (cs : List Char) (h : ∀ c ∈ cs, plainC c) : ∀ c ∈ sanitize cs, plainC c := by
  intro c hc
  unfold sanitize at hc
  obtain ⟨d, hd, e⟩ := List.mem_map.mp hc
  subst e
  split
  · unfold plainC; decide
  · exact h d hd

theorem joinBar_plain (fs : List (List Char)) (h : ∀ f ∈ fs, ∀ c ∈ f, plainC c) : ∀ c ∈ joinBar fs, plainC c := by
  induction fs with
  | nil => intro c hc; simp [joinBar] at hc
  | cons f rest ih =>
    cases rest with
    | nil => intro c hc; simp only [joinBar] at hc; exact h f (by simp) c hc
    | cons g more =>
      intro c hc
      simp only [joinBar, List.mem_append, List.mem_cons] at hc
      rcases hc with hc | hc | hc
      · exact h f (by simp) c hc
      · subst hc; unfold plainC; decide
      · exact ih (fun f' hf' => h f' (by simp [hf'])) c (by simpa [joinBar] using hc)

theorem toLine_plain (it : MItem) (h : ∀ c ∈ it.resource, plainC c) : ∀ c ∈ it.toLine, plainC c := by
  unfold MItem.toLine
  apply joinBar_plain
  intro f hf
  simp only [List.mem_cons, List.not_mem_nil, or_false] at hf
  rcases hf with e | e | e | e | e | e | e | e | e | e | e <;> subst e <;>
    first | exact printNat_plain _ | exact timeStr_plain _ | exact sanitize_plain _ h

theorem char_of_toNat (c : Char) (n : Nat) (h : c.toNat = n) : c = Char.ofNat n := by
  rw [← h, Char.ofNat_toNat]

theorem utf8EncodeChar_no (c : Char) (b : Nat) (hb : b < 128) (hc : c ≠ Char.ofNat b) : b ∉ utf8EncodeChar c := by
  unfold utf8EncodeChar
  simp only []
  split
  · intro hm
    simp only [List.mem_cons, List.not_mem_nil, or_false] at hm
    exact hc (char_of_toNat c b hm.symm)
  · split
    · intro hm; simp only [List.mem_cons, List.not_mem_nil, or_false] at hm; omega
    · split
      · intro hm; simp only [List.mem_cons, List.not_mem_nil, or_false] at hm; omega
      · intro hm; simp only [List.mem_cons, List.not_mem_nil, or_false] at hm; omega

theorem utf8Encode_no (cs : List Char) (b : Nat) (hb : b < 128) (hc : ∀ c ∈ cs, c ≠ Char.ofNat b) : b ∉ utf8Encode cs := by
  unfold utf8Encode
  intro hm
  obtain ⟨c, hcm, hbm⟩ := List.mem_flatMap.mp hm
  exact utf8EncodeChar_no c b hb (hc c hcm) hbm

/-- the line of an item, without the terminator -/
def lineOf (it : MItem) : Bytes := utf8Encode it.toLine

theorem lineBytes_eq (it : MItem) : lineBytes it = lineOf it ++ [10] := rfl

theorem dropLastCR_id (l : Bytes) (h : 13 ∉ l) : dropLastCR l = l := by
  unfold dropLastCR
  split
  · rename_i r hr
    exfalso; apply h
    have : 13 ∈ l.reverse := by rw [hr]; simp
    simpa using this
  · rfl

theorem dropAllCR_id (l : Bytes) (h : 13 ∉ l) : dropAllCR l = l := by
  unfold dropAllCR
  have : l.reverse.dropWhile (· = 13) = l.reverse := by
    cases hl : l.reverse with
    | nil => rfl
    | cons a r =>
      have ha : a ≠ 13 := by
        intro e; apply h
        have : a ∈ l.reverse := by rw [hl]; simp
        rw [e] at this; simpa using this
      simp [List.dropWhile, ha]
  rw [this, List.reverse_reverse]

/-- an item as the property quantifies over them: field values within their Rust types, a name without line breaks -/
def GoodItem (it : MItem) : Prop := it.inRange ∧ ∀ c ∈ it.resource, plainC c

/-- what reading the line back yields -/
theorem stored_eq (it : MItem) (h : it.inRange) : stored it = { it with resource := sanitize it.resource } := by
  obtain ⟨_, _, _, _, _, _, _, _, h8⟩ := h
  unfold stored rtypeOfU8
  by_cases h1 : 1 ≤ it.rtype ∧ it.rtype ≤ 6
  · simp [h1]
  · have : it.rtype = 0 := by omega
    simp [this]

theorem lineOf_no_nl (it : MItem) (h : GoodItem it) : 10 ∉ lineOf it :=
  utf8Encode_no _ 10 (by omega) (fun c hc => (toLine_plain it h.2 c hc).1)

theorem lineOf_no_cr (it : MItem) (h : GoodItem it) : 13 ∉ lineOf it :=
  utf8Encode_no _ 13 (by omega) (fun c hc => (toLine_plain it h.2 c hc).2)

theorem parseLine_lineOf (it : MItem) (h : GoodItem it) : parseLine (lineOf it) = some (stored it) := by
  unfold parseLine lineOf
  rw [decodeUtf8_encode, Option.bind_some, line_roundtrip it h.1, stored_eq it h.1]


/-! ### the read loops on well-formed lines -/


theorem rangeLoop_good (bs es : Nat) (res : List Char) (prev : Nat) (its : List MItem) (tail : List Bytes) (acc : List MItem)
    (hg : ∀ it ∈ its, GoodItem it) (hcap : prev + acc.length + its.length < MAX_ITEM_AMOUNT) :
    rangeLoop bs es res prev (its.map lineOf ++ tail) acc =
      if (its.map stored).all (inWin bs es) then
        rangeLoop bs es res prev tail (((its.map stored).filter (resMatch res)).reverse ++ acc)
      else ⟨acc.reverse ++ (((its.map stored).takeWhile (inWin bs es)).filter (resMatch res)), false⟩ := by
  induction its generalizing acc with
  | nil => simp
  | cons it rest ih =>
    have hgi := hg it (by simp)
    have hp : parseLine (dropLastCR (lineOf it)) = some (stored it) := by
      rw [dropLastCR_id _ (lineOf_no_cr it hgi), parseLine_lineOf it hgi]
    simp only [List.map_cons, List.cons_append, rangeLoop, hp, List.all_cons, List.takeWhile_cons, List.filter_cons]
    by_cases hw : inWin bs es (stored it) = true
    · have hw' : ¬ ((stored it).ts / 1000 < bs ∨ (stored it).ts / 1000 > es) := by
        simp only [inWin, Bool.and_eq_true, decide_eq_true_eq] at hw; omega
      simp only [hw', if_false, hw, Bool.true_and, if_true]
      by_cases hm : resMatch res (stored it) = true
      · have hm' : res.isEmpty ∨ res = (stored it).resource := by
          simpa [resMatch] using hm
        simp only [hm', if_true, hm]
        have hcap' : ¬ (prev + (stored it :: acc).length ≥ MAX_ITEM_AMOUNT) := by
          simp only [List.length_cons] at hcap ⊢; omega
        simp only [hcap', if_false]
        rw [ih (stored it :: acc) (fun x hx => hg x (by simp [hx])) (by simp only [List.length_cons] at hcap ⊢; omega)]
        split
        · simp [List.reverse_cons, List.append_assoc]
        · simp [List.reverse_cons, List.append_assoc, hm]
      · have hm' : ¬ (res.isEmpty ∨ res = (stored it).resource) := by
          simpa [resMatch] using hm
        simp only [hm', if_false, hm]
        have hcap' : ¬ (prev + acc.length ≥ MAX_ITEM_AMOUNT) := by
          simp only [List.length_cons] at hcap; omega
        simp only [hcap', if_false]
        rw [ih acc (fun x hx => hg x (by simp [hx])) (by simp only [List.length_cons] at hcap; omega)]
        split <;> simp [hm]
    · have hw' : ((stored it).ts / 1000 < bs ∨ (stored it).ts / 1000 > es) := by
        simp only [inWin, Bool.and_eq_true, decide_eq_true_eq] at hw; omega
      simp only [hw', if_true, hw, Bool.false_and]
      simp


/-! ### a log file and its index, abstractly: the groups of lines that begin at an index entry -/

abbrev Group := Nat × List MItem

def groupBytes (g : Group) : Bytes := g.2.flatMap lineBytes
def groupsBytes (gs : List Group) : Bytes := gs.flatMap groupBytes
def groupsItems (gs : List Group) : List MItem := gs.flatMap (·.2)

/-- the index file: one entry per group, holding the group's second and the offset at which its lines begin -/
def idxOf : Nat → List Group → Bytes
  | _, [] => []
  | off, g :: gs => encEntry (g.1, off) ++ idxOf (off + (groupBytes g).length) gs

theorem splitLines_items (its : List MItem) (hg : ∀ it ∈ its, GoodItem it) (t : Bytes) :
    splitLines (its.flatMap lineBytes ++ t) = its.map lineOf ++ splitLines t := by
  induction its with
  | nil => simp
  | cons it rest ih =>
    simp only [List.flatMap_cons, lineBytes_eq, List.append_assoc, List.map_cons, List.cons_append]
    rw [splitLines_line _ _ (lineOf_no_nl it (hg it (by simp))), List.nil_append, ih (fun x hx => hg x (by simp [hx]))]

theorem groupsBytes_eq_items (gs : List Group) : groupsBytes gs = (groupsItems gs).flatMap lineBytes := by
  induction gs with
  | nil => rfl
  | cons g rest ih => simp [groupsBytes, groupsItems, groupBytes, List.flatMap_append] at ih ⊢; rw [ih]

theorem groupsBytes_append (a b : List Group) : groupsBytes (a ++ b) = groupsBytes a ++ groupsBytes b := by
  simp [groupsBytes]

/-- the entry found in the index: the first group whose second is not before `b`, with the offset of its first line -/
theorem findEntry_idxOf (gs : List Group) (off b : Nat) (t : Bytes) (ht : t.length < 16)
    (hs : ∀ g ∈ gs, g.1 < 18446744073709551616) (ho : off + (groupsBytes gs).length < 18446744073709551616) :
    findEntry (idxOf off gs ++ t) b =
      match gs.dropWhile (fun g => decide (g.1 < b)) with
      | [] => none
      | g :: _ => some (g.1, off + (groupsBytes (gs.takeWhile (fun g => decide (g.1 < b)))).length) := by
  induction gs generalizing off with
  | nil => simp [idxOf, findEntry_short t b ht]
  | cons g rest ih =>
    have hlen : (groupsBytes (g :: rest)).length = (groupBytes g).length + (groupsBytes rest).length := by
      simp [groupsBytes]
    simp only [idxOf, List.append_assoc]
    rw [findEntry_cons (g.1, off) _ b (hs g (by simp)) (by omega)]
    by_cases hb : g.1 ≥ b
    · have : ¬ g.1 < b := by omega
      simp [hb, List.dropWhile, List.takeWhile, this, groupsBytes]
    · have hlt : g.1 < b := by omega
      simp only [hb, if_false]
      rw [ih (off + (groupBytes g).length) (fun x hx => hs x (by simp [hx])) (by omega)]
      simp only [List.dropWhile, hlt, decide_true, List.takeWhile]
      split <;> simp [groupsBytes, Nat.add_assoc]


/-- one log file with its index, abstractly; `tail` / `idxTail` are the torn bytes of a crash state (empty in a live log) -/
structure AFile where
  id : FileId
  groups : List Group
  tail : Bytes := []
  idxTail : Bytes := []

def AFile.log (f : AFile) : Bytes := groupsBytes f.groups ++ f.tail
def AFile.idx (f : AFile) : Bytes := idxOf 0 f.groups ++ f.idxTail
def AFile.items (f : AFile) : List MItem := groupsItems f.groups

def secOf (it : MItem) : Nat := it.ts / 1000

/-- the directory holds exactly these files, in this order -/
structure Rep (fs : FS) (al : List AFile) : Prop where
  listing : fs.listLogs = al.map (·.id)
  logs : ∀ f ∈ al, fs.logs.get? f.id = some f.log
  idxs : ∀ f ∈ al, fs.idxs.get? f.id = some f.idx ∨ (fs.idxs.get? f.id = none ∧ f.groups = [])

/-- what the writer guarantees about the files -/
structure WF (al : List AFile) : Prop where
  sorted : (al.flatMap (fun f => f.groups.map (·.1))).Pairwise (· ≤ ·)
  secs : ∀ f ∈ al, ∀ g ∈ f.groups, ∀ it ∈ g.2, secOf it = g.1
  good : ∀ f ∈ al, ∀ g ∈ f.groups, ∀ it ∈ g.2, GoodItem it
  small : ∀ f ∈ al, (∀ g ∈ f.groups, g.1 < 18446744073709551616) ∧ (groupsBytes f.groups).length < 18446744073709551616
  tails : ∀ f ∈ al, 10 ∉ f.tail ∧ f.idxTail.length < 16
  cap : (al.flatMap AFile.items).length < MAX_ITEM_AMOUNT

theorem stored_ts (it : MItem) : (stored it).ts = it.ts := rfl

theorem inWin_stored (bs es : Nat) (it : MItem) : inWin bs es (stored it) = inWin bs es it := rfl

/-- items of sorted groups are sorted -/
theorem groupsItems_sec (gs : List Group) (hs : ∀ g ∈ gs, ∀ it ∈ g.2, secOf it = g.1) (lo hi : Nat)
    (hb : ∀ g ∈ gs, lo ≤ g.1 ∧ g.1 ≤ hi) : ∀ it ∈ groupsItems gs, lo ≤ secOf it ∧ secOf it ≤ hi := by
  intro it hit
  obtain ⟨g, hg, hig⟩ := List.mem_flatMap.mp hit
  rw [hs g hg it hig]
  exact hb g hg

theorem groupsItems_sorted (gs : List Group) (hs : ∀ g ∈ gs, ∀ it ∈ g.2, secOf it = g.1)
    (hp : (gs.map (·.1)).Pairwise (· ≤ ·)) : (groupsItems gs).Pairwise (fun a b => secOf a ≤ secOf b) := by
  induction gs with
  | nil => simp [groupsItems]
  | cons g rest ih =>
    simp only [List.map_cons, List.pairwise_cons] at hp
    simp only [groupsItems, List.flatMap_cons]
    rw [List.pairwise_append]
    refine ⟨?_, ih (fun x hx => hs x (by simp [hx])) hp.2, ?_⟩
    · -- inside one group all seconds are equal
      have : ∀ a ∈ g.2, ∀ b ∈ g.2, secOf a ≤ secOf b := by
        intro a ha b hb
        rw [hs g (by simp) a ha, hs g (by simp) b hb]; exact Nat.le_refl _
      exact List.pairwise_of_forall_mem_list this
    · intro a ha b hb
      obtain ⟨g', hg', hbg⟩ := List.mem_flatMap.mp hb
      rw [hs g (by simp) a ha, hs g' (by simp [hg']) b hbg]
      exact hp.1 g'.1 (List.mem_map.mpr ⟨g', hg', rfl⟩)

/-- on a list sorted by second that begins at or after `bs`, reading until the first item outside the window loses nothing -/
theorem takeWhile_inWin_sorted (bs es : Nat) (l : List MItem) (hp : l.Pairwise (fun a b => secOf a ≤ secOf b))
    (hlo : ∀ it ∈ l, bs ≤ secOf it) : l.takeWhile (inWin bs es) = l.filter (inWin bs es) := by
  induction l with
  | nil => rfl
  | cons a rest ih =>
    simp only [List.pairwise_cons] at hp
    by_cases hw : inWin bs es a = true
    · simp only [List.takeWhile_cons, hw, if_true, List.filter_cons]
      rw [ih hp.2 (fun x hx => hlo x (by simp [hx]))]
    · simp only [List.takeWhile_cons, hw, List.filter_cons]
      have ha : es < secOf a := by
        have := hlo a (by simp)
        simp only [inWin, secOf, Bool.and_eq_true, decide_eq_true_eq] at hw this ⊢; omega
      symm
      simp only [Bool.false_eq_true, if_false]
      rw [List.filter_eq_nil_iff]
      intro x hx
      have := hp.1 x hx
      simp only [inWin, secOf, Bool.and_eq_true, decide_eq_true_eq] at this ha ⊢; omega


theorem takeWhile_append_neg {α} (p : α → Bool) (l₁ l₂ : List α) (h : l₁.all p = false) :
    (l₁ ++ l₂).takeWhile p = l₁.takeWhile p := by
  induction l₁ with
  | nil => simp at h
  | cons a r ih =>
    by_cases ha : p a = true
    · simp only [List.all_cons, ha, Bool.true_and] at h
      simp [ha, ih h]
    · simp [ha]

theorem takeWhile_append_pos {α} (p : α → Bool) (l₁ l₂ : List α) (h : l₁.all p = true) :
    (l₁ ++ l₂).takeWhile p = l₁ ++ l₂.takeWhile p := by
  induction l₁ with
  | nil => simp
  | cons a r ih =>
    simp only [List.all_cons, Bool.and_eq_true] at h
    simp [h.1, ih h.2]

theorem takeWhile_all {α} (p : α → Bool) (l : List α) (h : l.all p = true) : l.takeWhile p = l := by
  have := takeWhile_append_pos p l [] h
  simpa using this

/-- reading one live file from the offset of a group boundary: the items from there on, until the first one outside the window -/
theorem rangeOneFile_live (gs pre post : List Group) (hsplit : gs = pre ++ post) (bs es : Nat) (res : List Char) (prev : Nat)
    (hg : ∀ it ∈ groupsItems post, GoodItem it) (hcap : prev + (groupsItems post).length < MAX_ITEM_AMOUNT) :
    rangeOneFile (groupsBytes gs) (groupsBytes pre).length bs es res prev =
      ⟨(((groupsItems post).map stored).takeWhile (inWin bs es)).filter (resMatch res), ((groupsItems post).map stored).all (inWin bs es)⟩ := by
  unfold rangeOneFile
  rw [hsplit, groupsBytes_append, List.drop_left, groupsBytes_eq_items post]
  have h1 := splitLines_items (groupsItems post) hg []
  simp only [List.append_nil, splitLines] at h1
  rw [h1]
  have h2 := rangeLoop_good bs es res prev (groupsItems post) [] [] hg (by simpa using hcap)
  simp only [List.append_nil] at h2
  rw [h2]
  by_cases hall : ((groupsItems post).map stored).all (inWin bs es) = true
  · simp only [hall, if_true, rangeLoop, List.reverse_reverse]
    rw [takeWhile_all _ _ hall]
  · simp only [hall]
    simp at hall ⊢


theorem rangeRest_live (fs : FS) (B : List AFile) (hlogs : ∀ f ∈ B, fs.logs.get? f.id = some f.log) (hlive : ∀ f ∈ B, f.tail = [])
    (hgood : ∀ f ∈ B, ∀ it ∈ f.items, GoodItem it) (bs es : Nat) (res : List Char) (items : List MItem)
    (hcap : items.length + (B.flatMap AFile.items).length < MAX_ITEM_AMOUNT) :
    rangeRest fs bs es res (B.map (·.id)) items =
      some (items ++ (((B.flatMap AFile.items).map stored).takeWhile (inWin bs es)).filter (resMatch res)) := by
  induction B generalizing items with
  | nil => simp [rangeRest]
  | cons f rest ih =>
    have hlen : ((f :: rest).flatMap AFile.items).length = (groupsItems f.groups).length + (rest.flatMap AFile.items).length := by
      simp only [List.flatMap_cons, List.length_append]; rfl
    have hlog : f.log = groupsBytes f.groups := by simp [AFile.log, hlive f (by simp)]
    have hr := rangeOneFile_live f.groups [] f.groups rfl bs es res items.length (hgood f (by simp)) (by omega)
    simp only [List.map_cons, rangeRest, hlogs f (by simp), hlog]
    have h0 : (groupsBytes []).length = 0 := rfl
    rw [h0] at hr
    rw [hr]
    simp only []
    by_cases hall : ((groupsItems f.groups).map stored).all (inWin bs es) = true
    · simp only [hall, if_true]
      rw [takeWhile_all _ _ hall]
      have hle : (List.filter (resMatch res) (List.map stored (groupsItems f.groups))).length ≤ (groupsItems f.groups).length := by
        exact Nat.le_trans (List.length_filter_le _ _) (by simp)
      rw [ih (fun x hx => hlogs x (by simp [hx])) (fun x hx => hlive x (by simp [hx])) (fun x hx => hgood x (by simp [hx])) _
        (by rw [List.length_append]; omega)]
      simp only [List.flatMap_cons, List.map_append, AFile.items]
      rw [takeWhile_append_pos _ _ _ hall]
      simp [List.filter_append, List.append_assoc]
    · have hall' : ((groupsItems f.groups).map stored).all (inWin bs es) = false := by simpa using hall
      simp only [hall', Bool.false_eq_true, if_false]
      simp only [List.flatMap_cons, List.map_append, AFile.items]
      rw [takeWhile_append_neg _ _ _ hall']

/-- what the index of a file answers for a begin second -/
def firstOffset (gs : List Group) (bs : Nat) : Option (Nat × Nat) :=
  match gs.dropWhile (fun g => decide (g.1 < bs)) with
  | [] => none
  | g :: _ => some (g.1, (groupsBytes (gs.takeWhile (fun g => decide (g.1 < bs)))).length)

theorem idx_lookup (fs : FS) (f : AFile) (bs : Nat)
    (hidx : fs.idxs.get? f.id = some f.idx ∨ (fs.idxs.get? f.id = none ∧ f.groups = []))
    (hs : (∀ g ∈ f.groups, g.1 < 18446744073709551616) ∧ (groupsBytes f.groups).length < 18446744073709551616)
    (ht : f.idxTail.length < 16) :
    (fs.idxs.get? f.id).bind (findEntry · bs) = firstOffset f.groups bs := by
  rcases hidx with h | ⟨h, hg⟩
  · rw [h, Option.bind_some, AFile.idx, findEntry_idxOf f.groups 0 bs f.idxTail ht hs.1 (by omega)]
    unfold firstOffset
    split <;> simp_all
  · rw [h, hg]; rfl

theorem findStart_spec (fs : FS) (al : List AFile) (bs : Nat)
    (hidx : ∀ f ∈ al, (fs.idxs.get? f.id).bind (findEntry · bs) = firstOffset f.groups bs) :
    findStart fs bs (al.map (·.id)) =
      match al.dropWhile (fun f => (firstOffset f.groups bs).isNone) with
      | [] => none
      | f :: B => (firstOffset f.groups bs).map (fun p => (f.id :: B.map (·.id), p.1, p.2)) := by
  induction al with
  | nil => rfl
  | cons f rest ih =>
    simp only [List.map_cons, findStart, hidx f (by simp)]
    cases hfo : firstOffset f.groups bs with
    | none =>
      simp only [List.dropWhile, hfo, Option.isNone_none]
      exact ih (fun x hx => hidx x (by simp [hx]))
    | some p =>
      simp [List.dropWhile, hfo]


theorem secOf_stored (it : MItem) : secOf (stored it) = secOf it := rfl

theorem filter_inRange (l : List MItem) (b e : Nat) (res : List Char) :
    l.filter (inRange b e res) = (l.filter (inWin (b / 1000) (e / 1000))).filter (resMatch res) := by
  rw [List.filter_filter]
  congr 1
  funext it
  simp [inRange, Bool.and_comm]

theorem filter_inWin_early (l : List MItem) (bs es : Nat) (h : ∀ it ∈ l, secOf it < bs) : (l.map stored).filter (inWin bs es) = [] := by
  rw [List.filter_eq_nil_iff]
  intro x hx
  obtain ⟨it, hit, rfl⟩ := List.mem_map.mp hx
  have := h it hit
  simp only [inWin, secOf, stored_ts, Bool.and_eq_true, decide_eq_true_eq] at this ⊢
  intro h1
  have := of_decide_eq_true h1.1
  omega

/-- the items before the start position are too early, the ones from it on are sorted: reading until the first item past the
window returns exactly the items of the window -/
theorem assemble (early frm : List MItem) (b e : Nat) (res : List Char) (hearly : ∀ it ∈ early, secOf it < b / 1000)
    (hlo : ∀ it ∈ frm, b / 1000 ≤ secOf it) (hsorted : frm.Pairwise (fun x y => secOf x ≤ secOf y)) :
    specRange ((early ++ frm).map stored) b e res =
      ((frm.map stored).takeWhile (inWin (b / 1000) (e / 1000))).filter (resMatch res) := by
  unfold specRange
  rw [filter_inRange, List.map_append, List.filter_append, filter_inWin_early early _ _ hearly, List.nil_append]
  rw [takeWhile_inWin_sorted (b / 1000) (e / 1000) (frm.map stored)]
  · exact List.Pairwise.map stored (fun x y h => h) hsorted
  · intro x hx
    obtain ⟨it, hit, rfl⟩ := List.mem_map.mp hx
    exact hlo it hit

theorem dropWhile_nil_all {α} (p : α → Bool) (l : List α) (h : l.dropWhile p = []) : ∀ a ∈ l, p a = true := by
  induction l with
  | nil => intro a ha; simp at ha
  | cons x r ih =>
    by_cases hx : p x = true
    · simp only [List.dropWhile_cons, hx, if_true] at h
      intro a ha
      rcases List.mem_cons.mp ha with e | e
      · exact e ▸ hx
      · exact ih h a e
    · simp [List.dropWhile_cons, hx] at h

theorem takeWhile_all_mem {α} (p : α → Bool) (l : List α) : ∀ a ∈ l.takeWhile p, p a = true := by
  induction l with
  | nil => intro a ha; simp at ha
  | cons x r ih =>
    by_cases hx : p x = true
    · simp only [List.takeWhile_cons, hx, if_true]
      intro a ha
      rcases List.mem_cons.mp ha with e | e
      · exact e ▸ hx
      · exact ih a e
    · simp [List.takeWhile_cons, hx]

theorem dropWhile_head_not {α} (p : α → Bool) (l : List α) (a : α) (r : List α) (h : l.dropWhile p = a :: r) : p a = false := by
  induction l with
  | nil => simp at h
  | cons x t ih =>
    by_cases hx : p x = true
    · simp only [List.dropWhile_cons, hx, if_true] at h
      exact ih h
    · simp only [List.dropWhile_cons, hx] at h
      simp only [Bool.false_eq_true, if_false, List.cons.injEq] at h
      rw [← h.1]; simpa using hx

theorem firstOffset_none (gs : List Group) (bs : Nat) (h : firstOffset gs bs = none) : ∀ g ∈ gs, g.1 < bs := by
  unfold firstOffset at h
  split at h
  · rename_i hd
    intro g hg
    have := dropWhile_nil_all _ _ hd g hg
    simpa using this
  · simp at h

theorem firstOffset_some (gs : List Group) (bs sec off : Nat) (h : firstOffset gs bs = some (sec, off)) :
    ∃ pre g post, gs = pre ++ g :: post ∧ (∀ x ∈ pre, x.1 < bs) ∧ bs ≤ g.1 ∧ sec = g.1 ∧ off = (groupsBytes pre).length := by
  unfold firstOffset at h
  split at h
  · simp at h
  · rename_i g post hd
    simp only [Option.some.injEq, Prod.mk.injEq] at h
    refine ⟨gs.takeWhile (fun g => decide (g.1 < bs)), g, post, ?_, ?_, ?_, h.1.symm, h.2.symm⟩
    · rw [← hd, List.takeWhile_append_dropWhile]
    · intro x hx
      have := takeWhile_all_mem _ _ x hx
      simpa using this
    · have := dropWhile_head_not _ _ _ _ hd
      simp only [decide_eq_false_iff_not] at this
      omega


theorem items_flatMap_groups (B : List AFile) : B.flatMap AFile.items = groupsItems (B.flatMap (·.groups)) := by
  induction B with
  | nil => rfl
  | cons f r ih => simp only [List.flatMap_cons, ih, AFile.items, groupsItems, List.flatMap_append]

theorem length_takeWhile_le' {α} (p : α → Bool) (l : List α) : (l.takeWhile p).length ≤ l.length := by
  induction l with
  | nil => simp
  | cons a r ih =>
    simp only [List.takeWhile_cons]
    split
    · simp only [List.length_cons]; omega
    · simp


/-! ### directories as association lists with increasing file ids -/

theorem FileId.lt_irrefl (a : FileId) : a.lt a = false := by simp [FileId.lt]

theorem FileId.lt_trans {a b c : FileId} (h1 : a.lt b = true) (h2 : b.lt c = true) : a.lt c = true := by
  simp only [FileId.lt, Bool.or_eq_true, decide_eq_true_eq, Bool.and_eq_true, beq_iff_eq] at *
  omega

theorem FileId.lt_asymm {a b : FileId} (h1 : a.lt b = true) : b.lt a = false := by
  cases hb : b.lt a with
  | false => rfl
  | true =>
    have := FileId.lt_trans h1 hb
    rw [FileId.lt_irrefl] at this
    exact absurd this (by simp)

def IdsSorted (ids : List FileId) : Prop := ids.Pairwise (fun a b => a.lt b = true)

theorem insertId_lt_all (f : FileId) (l : List FileId) (h : ∀ g ∈ l, f.lt g = true) (hs : IdsSorted l) : insertId f l = f :: l := by
  cases l with
  | nil => rfl
  | cons g gs => simp [insertId, h g (by simp)]

theorem foldr_insertId_sorted (l : List FileId) (h : IdsSorted l) : l.foldr insertId [] = l := by
  induction l with
  | nil => rfl
  | cons a r ih =>
    have hp := List.pairwise_cons.mp h
    simp only [List.foldr_cons, ih hp.2]
    exact insertId_lt_all a r hp.1 hp.2

theorem ids_ne_of_sorted {a : FileId} {r : List FileId} (h : IdsSorted (a :: r)) : ∀ g ∈ r, g ≠ a := by
  intro g hg e
  have := (List.pairwise_cons.mp h).1 g hg
  rw [e, FileId.lt_irrefl] at this
  exact absurd this (by simp)

/-- look-up in a directory listing built from the abstract files -/
theorem get?_map {β} (al : List β) (idOf : β → FileId) (φ : β → Bytes) (hs : IdsSorted (al.map idOf)) (x : β) (hx : x ∈ al) :
    Dir.get? (al.map (fun f => (idOf f, φ f))) (idOf x) = some (φ x) := by
  induction al with
  | nil => simp at hx
  | cons a r ih =>
    have hp := List.pairwise_cons.mp hs
    rcases List.mem_cons.mp hx with e | e
    · subst e; simp [Dir.get?]
    · have hne : idOf a ≠ idOf x := by
        intro h
        have := hp.1 (idOf x) (List.mem_map.mpr ⟨x, e, rfl⟩)
        rw [← h, FileId.lt_irrefl] at this
        exact absurd this (by simp)
      have := ih hp.2 e
      simp only [Dir.get?, List.map_cons, List.find?] at this ⊢
      simp only [hne, decide_false]
      exact this

theorem get?_none_of_not_mem {β} (al : List β) (idOf : β → FileId) (φ : β → Bytes) (x : FileId) (hx : x ∉ al.map idOf) :
    Dir.get? (al.map (fun f => (idOf f, φ f))) x = none := by
  induction al with
  | nil => rfl
  | cons a r ih =>
    simp only [List.map_cons, List.mem_cons, not_or] at hx
    have := ih hx.2
    simp only [Dir.get?, List.map_cons, List.find?] at this ⊢
    have hne : idOf a ≠ x := fun e => hx.1 e.symm
    simp only [hne, decide_false]
    exact this


theorem erase_not_mem {β} (al : List β) (idOf : β → FileId) (φ : β → Bytes) (x : FileId) (hx : x ∉ al.map idOf) :
    Dir.erase (al.map (fun f => (idOf f, φ f))) x = al.map (fun f => (idOf f, φ f)) := by
  unfold Dir.erase
  rw [List.filter_eq_self]
  intro p hp
  obtain ⟨f, hf, rfl⟩ := List.mem_map.mp hp
  have : idOf f ≠ x := fun e => hx (List.mem_map.mpr ⟨f, hf, e⟩)
  simpa using this

theorem erase_head {β} (a : β) (r : List β) (idOf : β → FileId) (φ : β → Bytes) (hs : IdsSorted ((a :: r).map idOf)) :
    Dir.erase ((a :: r).map (fun f => (idOf f, φ f))) (idOf a) = r.map (fun f => (idOf f, φ f)) := by
  have hne : idOf a ∉ r.map idOf := by
    intro h
    exact ids_ne_of_sorted hs (idOf a) h rfl
  have := erase_not_mem r idOf φ (idOf a) hne
  unfold Dir.erase at this ⊢
  simp only [List.map_cons, List.filter_cons, ne_eq, not_true_eq_false, decide_false, Bool.false_eq_true, if_false]
  exact this

theorem erase_take {β} (al : List β) (idOf : β → FileId) (φ : β → Bytes) (hs : IdsSorted (al.map idOf)) (k : Nat) :
    ((al.take k).map idOf).foldl Dir.erase (al.map (fun f => (idOf f, φ f))) = (al.drop k).map (fun f => (idOf f, φ f)) := by
  induction k generalizing al with
  | zero => simp
  | succ k ih =>
    cases al with
    | nil => simp
    | cons a r =>
      simp only [List.take_succ_cons, List.map_cons, List.foldl_cons, List.drop_succ_cons]
      have := erase_head a r idOf φ hs
      simp only [List.map_cons] at this
      rw [this]
      exact ih r (List.pairwise_cons.mp hs).2

theorem applyAll_removes (fs : FS) (ids : List FileId) :
    fs.applyAll (ids.flatMap (fun f => [Act.remove false f, Act.remove true f])) =
      { logs := ids.foldl Dir.erase fs.logs, idxs := ids.foldl Dir.erase fs.idxs } := by
  induction ids generalizing fs with
  | nil => rfl
  | cons a r ih =>
    simp only [List.flatMap_cons, FS.applyAll, List.cons_append, List.nil_append, List.foldl_cons, FS.apply] at ih ⊢
    rw [ih]

theorem applyAll_append (fs : FS) (a b : List Act) : fs.applyAll (a ++ b) = (fs.applyAll a).applyAll b := by
  simp [FS.applyAll, List.foldl_append]

theorem append_last {β} (init : List β) (last : β) (idOf : β → FileId) (φ : β → Bytes) (hs : IdsSorted ((init ++ [last]).map idOf)) (bs x : Bytes) :
    Dir.append (init.map (fun f => (idOf f, φ f)) ++ [(idOf last, x)]) (idOf last) bs =
      init.map (fun f => (idOf f, φ f)) ++ [(idOf last, x ++ bs)] := by
  unfold Dir.append
  rw [List.map_append]
  congr 1
  · rw [List.map_map]
    apply List.map_congr_left
    intro f hf
    have : idOf f ≠ idOf last := by
      intro e
      rw [List.map_append, IdsSorted, List.pairwise_append] at hs
      have := hs.2.2 (idOf f) (List.mem_map.mpr ⟨f, hf, rfl⟩) (idOf last) (by simp)
      rw [e, FileId.lt_irrefl] at this
      exact absurd this (by simp)
    simp [this]
  · simp


/-! ### the writer keeps the directory well-formed -/

def AFile.new (id : FileId) : AFile := ⟨id, [], [], []⟩
def logDir (al : List AFile) : Dir := al.map (fun f => (f.id, f.log))
def idxDir (al : List AFile) : Dir := al.map (fun f => (f.id, f.idx))

/-- the directory, file for file -/
structure RepL (fs : FS) (al : List AFile) : Prop where
  logs : fs.logs = logDir al
  idxs : fs.idxs = idxDir al

def dropCount (n maxFiles : Nat) : Nat := if n ≥ maxFiles then n - maxFiles + 1 else 0

theorem listLogs_repL (fs : FS) (al : List AFile) (h : RepL fs al) (hs : IdsSorted (al.map (·.id))) : fs.listLogs = al.map (·.id) := by
  unfold FS.listLogs
  rw [h.logs, logDir, List.map_map]
  exact foldr_insertId_sorted _ hs

theorem sorted_le_last (l : List FileId) (hs : IdsSorted l) (x last : FileId) (hl : l.getLast? = some last) (hx : x ∈ l) :
    x = last ∨ x.lt last = true := by
  induction l with
  | nil => simp at hx
  | cons a r ih =>
    have hp := List.pairwise_cons.mp hs
    cases r with
    | nil =>
      simp only [List.getLast?_singleton, Option.some.injEq] at hl
      simp only [List.mem_singleton] at hx
      left; rw [hx, hl]
    | cons b t =>
      have hl' : (b :: t).getLast? = some last := by simpa [List.getLast?_cons_cons] using hl
      rcases List.mem_cons.mp hx with e | e
      · right
        have hlast_mem : last ∈ b :: t := List.mem_of_getLast? hl'
        rw [e]; exact hp.1 last hlast_mem
      · exact ih hp.2 hl' e

theorem nextFileId_gt (fs : FS) (al : List AFile) (h : RepL fs al) (hs : IdsSorted (al.map (·.id))) (day : Nat)
    (hd : ∀ f ∈ al, f.id.day ≤ day) : (nextFileId fs day).day = day ∧ ∀ g ∈ al.map (·.id), g.lt (nextFileId fs day) = true := by
  unfold nextFileId
  rw [listLogs_repL fs al h hs]
  have hsf : IdsSorted ((al.map (·.id)).filter (fun x => decide (x.day = day))) := List.Pairwise.filter _ hs
  cases hl : ((al.map (·.id)).filter (fun x => decide (x.day = day))).getLast? with
  | none =>
    refine ⟨rfl, ?_⟩
    intro g hg
    have hnil : (al.map (·.id)).filter (fun x => decide (x.day = day)) = [] := by
      simpa using hl
    have hne : g.day ≠ day := by
      intro e
      have : g ∈ (al.map (·.id)).filter (fun x => decide (x.day = day)) := List.mem_filter.mpr ⟨hg, by simpa using e⟩
      rw [hnil] at this; simp at this
    obtain ⟨f, hf, rfl⟩ := List.mem_map.mp hg
    have := hd f hf
    simp only [FileId.lt, Bool.or_eq_true, decide_eq_true_eq]
    left; omega
  | some l =>
    have hlmem := List.mem_of_getLast? hl
    have hlday : l.day = day := by simpa using (List.mem_filter.mp hlmem).2
    refine ⟨rfl, ?_⟩
    intro g hg
    obtain ⟨f, hf, rfl⟩ := List.mem_map.mp hg
    have hle := hd f hf
    by_cases e : f.id.day = day
    · have hgm : f.id ∈ (al.map (·.id)).filter (fun x => decide (x.day = day)) := List.mem_filter.mpr ⟨hg, by simpa using e⟩
      rcases sorted_le_last _ hsf f.id l hl hgm with h1 | h1
      · simp only [FileId.lt, Bool.or_eq_true, decide_eq_true_eq, Bool.and_eq_true, beq_iff_eq]
        right; rw [h1]; exact ⟨hlday, by omega⟩
      · simp only [FileId.lt, Bool.or_eq_true, decide_eq_true_eq, Bool.and_eq_true, beq_iff_eq] at h1 ⊢
        rcases h1 with h1 | h1
        · omega
        · right; exact ⟨e, by omega⟩
    · simp only [FileId.lt, Bool.or_eq_true, decide_eq_true_eq]
      left; omega


theorem sorted_drop (l : List FileId) (hs : IdsSorted l) (k : Nat) : IdsSorted (l.drop k) :=
  List.Pairwise.sublist (List.drop_sublist k l) hs

theorem sorted_snoc (l : List FileId) (hs : IdsSorted l) (x : FileId) (hx : ∀ g ∈ l, g.lt x = true) : IdsSorted (l ++ [x]) := by
  unfold IdsSorted
  rw [List.pairwise_append]
  refine ⟨hs, by simp, ?_⟩
  intro a ha b hb
  simp only [List.mem_singleton] at hb
  rw [hb]; exact hx a ha

theorem removeDeprecated_eq (fs : FS) (al : List AFile) (h : RepL fs al) (hs : IdsSorted (al.map (·.id))) (maxFiles : Nat) :
    removeDeprecated fs maxFiles =
      ((al.take (dropCount al.length maxFiles)).map (·.id)).flatMap (fun f => [Act.remove false f, Act.remove true f]) := by
  unfold removeDeprecated dropCount
  rw [listLogs_repL fs al h hs]
  simp only [List.length_map]
  split
  · rw [List.map_take]
  · simp

/-- rolling to the next file: the oldest files beyond the limit go, a new empty file with a greater name is added -/
theorem roll_spec (fs : FS) (al : List AFile) (h : RepL fs al) (hs : IdsSorted (al.map (·.id))) (maxFiles tsMs : Nat)
    (hd : ∀ f ∈ al, f.id.day ≤ dayOfSec (tsMs / 1000)) :
    RepL (fs.applyAll (rollActs fs maxFiles tsMs).2) (al.drop (dropCount al.length maxFiles) ++ [AFile.new (rollActs fs maxFiles tsMs).1]) ∧
    IdsSorted ((al.drop (dropCount al.length maxFiles) ++ [AFile.new (rollActs fs maxFiles tsMs).1]).map (·.id)) ∧
    (rollActs fs maxFiles tsMs).1.day = dayOfSec (tsMs / 1000) := by
  obtain ⟨hday, hgt⟩ := nextFileId_gt fs al h hs (dayOfSec (tsMs / 1000)) hd
  generalize hk : dropCount al.length maxFiles = k
  have hact : (rollActs fs maxFiles tsMs) =
      (nextFileId fs (dayOfSec (tsMs / 1000)),
        ((al.take k).map (·.id)).flatMap (fun f => [Act.remove false f, Act.remove true f]) ++
          [Act.create false (nextFileId fs (dayOfSec (tsMs / 1000))), Act.create true (nextFileId fs (dayOfSec (tsMs / 1000)))]) := by
    unfold rollActs
    rw [removeDeprecated_eq fs al h hs maxFiles, hk]
  rw [hact]
  simp only []
  generalize nextFileId fs (dayOfSec (tsMs / 1000)) = nf at *
  have hnotmem : nf ∉ (al.drop k).map (·.id) := by
    intro hm
    obtain ⟨f, hf, e⟩ := List.mem_map.mp hm
    have := hgt f.id (List.mem_map.mpr ⟨f, List.mem_of_mem_drop hf, rfl⟩)
    rw [e, FileId.lt_irrefl] at this
    exact absurd this (by simp)
  refine ⟨?_, ?_, hday⟩
  · rw [applyAll_append, applyAll_removes]
    simp only [FS.applyAll, List.foldl_cons, List.foldl_nil, FS.apply]
    constructor
    · simp only [h.logs, logDir]
      rw [erase_take al (·.id) (·.log) hs k, Dir.create, erase_not_mem _ _ _ _ hnotmem]
      simp [AFile.new, AFile.log, groupsBytes]
    · simp only [h.idxs, idxDir]
      rw [erase_take al (·.id) (·.idx) hs k, Dir.create, erase_not_mem _ _ _ _ hnotmem]
      simp [AFile.new, AFile.idx, idxOf]
  · rw [List.map_append]
    apply sorted_snoc
    · rw [List.map_drop]; exact sorted_drop _ hs k
    · intro g hg
      obtain ⟨f, hf, rfl⟩ := List.mem_map.mp hg
      exact hgt f.id (List.mem_map.mpr ⟨f, List.mem_of_mem_drop hf, rfl⟩)


theorem idxOf_snoc (off : Nat) (gs : List Group) (g : Group) :
    idxOf off (gs ++ [g]) = idxOf off gs ++ encEntry (g.1, off + (groupsBytes gs).length) := by
  induction gs generalizing off with
  | nil => simp [idxOf, groupsBytes]
  | cons a r ih =>
    simp only [List.cons_append, idxOf, ih, List.append_assoc]
    congr 3
    simp [groupsBytes, Nat.add_assoc]

theorem groupsBytes_snoc_empty (gs : List Group) (sec : Nat) : groupsBytes (gs ++ [(sec, [])]) = groupsBytes gs := by
  simp [groupsBytes, groupBytes]

theorem groupsBytes_extend (gi : List Group) (s : Nat) (l items : List MItem) :
    groupsBytes (gi ++ [(s, l ++ items)]) = groupsBytes (gi ++ [(s, l)]) ++ items.flatMap lineBytes := by
  simp [groupsBytes, groupBytes, List.flatMap_append]

theorem dir_append_append (d : Dir) (f : FileId) (a b : Bytes) : (d.append f a).append f b = d.append f (a ++ b) := by
  unfold Dir.append
  rw [List.map_map]
  apply List.map_congr_left
  intro p _
  by_cases h : p.1 = f <;> simp [h]

theorem dir_append_nil (d : Dir) (f : FileId) : d.append f [] = d := by
  unfold Dir.append
  conv => rhs; rw [← List.map_id d]
  apply List.map_congr_left
  intro p _
  by_cases h : p.1 = f
  · simp only [h, if_true, List.append_nil, id]; rw [← h]
  · simp [h]

theorem applyAll_log_appends (fs : FS) (f : FileId) (bss : List Bytes) :
    fs.applyAll (bss.map (fun bs => Act.append false f bs)) = { fs with logs := fs.logs.append f bss.flatten } := by
  induction bss generalizing fs with
  | nil => simp [FS.applyAll, dir_append_nil]
  | cons a r ih =>
    simp only [List.map_cons, FS.applyAll, List.foldl_cons, FS.apply] at ih ⊢
    rw [ih]
    simp [dir_append_append]


theorem flatMap_drop_sublist {α β} (l : List α) (k : Nat) (f : α → List β) : ((l.drop k).flatMap f).Sublist (l.flatMap f) := by
  conv => rhs; rw [← List.take_append_drop k l, List.flatMap_append]
  exact List.sublist_append_right _ _

/-- what the writer guarantees about the abstract files (everything that does not mention the directory) -/
structure AOk (latest : Nat) (al : List AFile) (B N : Nat) : Prop where
  live : ∀ f ∈ al, f.tail = [] ∧ f.idxTail = []
  sorted : (al.flatMap (fun f => f.groups.map (·.1))).Pairwise (· ≤ ·)
  secsLe : ∀ f ∈ al, ∀ g ∈ f.groups, g.1 ≤ latest
  itemSecs : ∀ f ∈ al, ∀ g ∈ f.groups, ∀ it ∈ g.2, secOf it = g.1
  good : ∀ f ∈ al, ∀ g ∈ f.groups, ∀ it ∈ g.2, GoodItem it
  bytes : ∀ f ∈ al, (groupsBytes f.groups).length ≤ B
  items : (al.flatMap AFile.items).length ≤ N

theorem AOk.mono {L L' B B' N N' : Nat} {al : List AFile} (h : AOk L al B N) (hL : L ≤ L') (hB : B ≤ B') (hN : N ≤ N') : AOk L' al B' N' :=
  ⟨h.live, h.sorted, fun f hf g hg => Nat.le_trans (h.secsLe f hf g hg) hL, h.itemSecs, h.good,
   fun f hf => Nat.le_trans (h.bytes f hf) hB, Nat.le_trans h.items hN⟩

theorem AOk.nil (L : Nat) : AOk L [] 0 0 :=
  ⟨by simp, by simp, by simp, by simp, by simp, by simp, by simp⟩

theorem AOk.drop_new {L B N : Nat} {al : List AFile} (h : AOk L al B N) (k : Nat) (id : FileId) : AOk L (al.drop k ++ [AFile.new id]) B N := by
  have hsub : ∀ f ∈ al.drop k ++ [AFile.new id], f ∈ al ∨ f = AFile.new id := by
    intro f hf
    rcases List.mem_append.mp hf with h1 | h1
    · exact Or.inl (List.mem_of_mem_drop h1)
    · exact Or.inr (by simpa using h1)
  refine ⟨?_, ?_, ?_, ?_, ?_, ?_, ?_⟩
  · intro f hf; rcases hsub f hf with h1 | h1
    · exact h.live f h1
    · subst h1; exact ⟨rfl, rfl⟩
  · have : (al.drop k ++ [AFile.new id]).flatMap (fun f => f.groups.map (·.1)) = (al.drop k).flatMap (fun f => f.groups.map (·.1)) := by
      simp [AFile.new]
    rw [this]
    exact List.Pairwise.sublist (flatMap_drop_sublist al k _) h.sorted
  · intro f hf g hg; rcases hsub f hf with h1 | h1
    · exact h.secsLe f h1 g hg
    · subst h1; simp [AFile.new] at hg
  · intro f hf g hg; rcases hsub f hf with h1 | h1
    · exact h.itemSecs f h1 g hg
    · subst h1; simp [AFile.new] at hg
  · intro f hf g hg; rcases hsub f hf with h1 | h1
    · exact h.good f h1 g hg
    · subst h1; simp [AFile.new] at hg
  · intro f hf; rcases hsub f hf with h1 | h1
    · exact h.bytes f h1
    · subst h1; simp [AFile.new, groupsBytes]
  · have : (al.drop k ++ [AFile.new id]).flatMap AFile.items = (al.drop k).flatMap AFile.items := by
      simp [AFile.new, AFile.items, groupsItems]
    rw [this]
    have hsl : ((al.drop k).flatMap AFile.items).Sublist (al.flatMap AFile.items) := flatMap_drop_sublist al k _
    exact Nat.le_trans hsl.length_le h.items


theorem AOk.entry {L B N : Nat} {init : List AFile} {last : AFile} (h : AOk L (init ++ [last]) B N) (sec : Nat) (hL : L ≤ sec) :
    AOk sec (init ++ [{ last with groups := last.groups ++ [(sec, [])] }]) B N := by
  have hmem : ∀ f ∈ init, f ∈ init ++ [last] := fun f hf => by simp [hf]
  have hlast : last ∈ init ++ [last] := by simp
  refine ⟨?_, ?_, ?_, ?_, ?_, ?_, ?_⟩
  · intro f hf
    rcases List.mem_append.mp hf with h1 | h1
    · exact h.live f (hmem f h1)
    · simp only [List.mem_singleton] at h1; subst h1; exact h.live last hlast
  · have e : (init ++ [({ last with groups := last.groups ++ [(sec, [])] } : AFile)]).flatMap (fun (f : AFile) => f.groups.map (·.1)) =
        (init ++ [last]).flatMap (fun (f : AFile) => f.groups.map (·.1)) ++ [sec] := by simp
    rw [e, List.pairwise_append]
    refine ⟨h.sorted, by simp, ?_⟩
    intro a ha b hb
    simp only [List.mem_singleton] at hb; subst hb
    obtain ⟨f, hf, hfa⟩ := List.mem_flatMap.mp ha
    obtain ⟨g, hg, rfl⟩ := List.mem_map.mp hfa
    exact Nat.le_trans (h.secsLe f hf g hg) hL
  · intro f hf g hg
    rcases List.mem_append.mp hf with h1 | h1
    · exact Nat.le_trans (h.secsLe f (hmem f h1) g hg) hL
    · simp only [List.mem_singleton] at h1; subst h1
      rcases List.mem_append.mp hg with h2 | h2
      · exact Nat.le_trans (h.secsLe last hlast g h2) hL
      · simp only [List.mem_singleton] at h2; subst h2; exact Nat.le_refl _
  · intro f hf g hg
    rcases List.mem_append.mp hf with h1 | h1
    · exact h.itemSecs f (hmem f h1) g hg
    · simp only [List.mem_singleton] at h1; subst h1
      rcases List.mem_append.mp hg with h2 | h2
      · exact h.itemSecs last hlast g h2
      · simp only [List.mem_singleton] at h2; subst h2; intro it hit; simp at hit
  · intro f hf g hg
    rcases List.mem_append.mp hf with h1 | h1
    · exact h.good f (hmem f h1) g hg
    · simp only [List.mem_singleton] at h1; subst h1
      rcases List.mem_append.mp hg with h2 | h2
      · exact h.good last hlast g h2
      · simp only [List.mem_singleton] at h2; subst h2; intro it hit; simp at hit
  · intro f hf
    rcases List.mem_append.mp hf with h1 | h1
    · exact h.bytes f (hmem f h1)
    · simp only [List.mem_singleton] at h1; subst h1
      simp only [groupsBytes_snoc_empty]; exact h.bytes last hlast
  · have e : (init ++ [{ last with groups := last.groups ++ [(sec, [])] }]).flatMap AFile.items = (init ++ [last]).flatMap AFile.items := by
      simp [AFile.items, groupsItems]
    rw [e]; exact h.items

theorem AOk.lines {L B N : Nat} {init : List AFile} {last : AFile} {gi : List Group} {gl : Group} (h : AOk L (init ++ [last]) B N)
    (hg : last.groups = gi ++ [gl]) (items : List MItem) (hgood : ∀ it ∈ items, GoodItem it) (hsec : ∀ it ∈ items, secOf it = gl.1) :
    AOk L (init ++ [{ last with groups := gi ++ [(gl.1, gl.2 ++ items)] }]) (B + (items.flatMap lineBytes).length) (N + items.length) := by
  have hmem : ∀ f ∈ init, f ∈ init ++ [last] := fun f hf => by simp [hf]
  have hlast : last ∈ init ++ [last] := by simp
  have hgl : gl ∈ last.groups := by rw [hg]; simp
  have hgi : ∀ g ∈ gi, g ∈ last.groups := fun g hgg => by rw [hg]; simp [hgg]
  refine ⟨?_, ?_, ?_, ?_, ?_, ?_, ?_⟩
  · intro f hf
    rcases List.mem_append.mp hf with h1 | h1
    · exact h.live f (hmem f h1)
    · simp only [List.mem_singleton] at h1; subst h1; exact h.live last hlast
  · have e : (init ++ [({ last with groups := gi ++ [(gl.1, gl.2 ++ items)] } : AFile)]).flatMap (fun (f : AFile) => f.groups.map (·.1)) =
        (init ++ [last]).flatMap (fun (f : AFile) => f.groups.map (·.1)) := by simp [hg]
    rw [e]; exact h.sorted
  · intro f hf g hgg
    rcases List.mem_append.mp hf with h1 | h1
    · exact h.secsLe f (hmem f h1) g hgg
    · simp only [List.mem_singleton] at h1; subst h1
      rcases List.mem_append.mp hgg with h2 | h2
      · exact h.secsLe last hlast g (hgi g h2)
      · simp only [List.mem_singleton] at h2; subst h2; exact h.secsLe last hlast gl hgl
  · intro f hf g hgg
    rcases List.mem_append.mp hf with h1 | h1
    · exact h.itemSecs f (hmem f h1) g hgg
    · simp only [List.mem_singleton] at h1; subst h1
      rcases List.mem_append.mp hgg with h2 | h2
      · exact h.itemSecs last hlast g (hgi g h2)
      · simp only [List.mem_singleton] at h2; subst h2
        intro it hit
        rcases List.mem_append.mp hit with h3 | h3
        · exact h.itemSecs last hlast gl hgl it h3
        · exact hsec it h3
  · intro f hf g hgg
    rcases List.mem_append.mp hf with h1 | h1
    · exact h.good f (hmem f h1) g hgg
    · simp only [List.mem_singleton] at h1; subst h1
      rcases List.mem_append.mp hgg with h2 | h2
      · exact h.good last hlast g (hgi g h2)
      · simp only [List.mem_singleton] at h2; subst h2
        intro it hit
        rcases List.mem_append.mp hit with h3 | h3
        · exact h.good last hlast gl hgl it h3
        · exact hgood it h3
  · intro f hf
    rcases List.mem_append.mp hf with h1 | h1
    · exact Nat.le_trans (h.bytes f (hmem f h1)) (Nat.le_add_right _ _)
    · simp only [List.mem_singleton] at h1; subst h1
      have := h.bytes last hlast
      simp only [groupsBytes_extend, List.length_append]
      rw [hg] at this
      have e : (gi ++ [(gl.1, gl.2)]) = gi ++ [gl] := rfl
      rw [e]; omega
  · have e : ((init ++ [{ last with groups := gi ++ [(gl.1, gl.2 ++ items)] }]).flatMap AFile.items).length =
        ((init ++ [last]).flatMap AFile.items).length + items.length := by
      simp [AFile.items, groupsItems, hg]; omega
    rw [e]; have := h.items; omega


theorem logDir_snoc (init : List AFile) (last : AFile) : logDir (init ++ [last]) = init.map (fun f => (f.id, f.log)) ++ [(last.id, last.log)] := by
  simp [logDir]
theorem idxDir_snoc (init : List AFile) (last : AFile) : idxDir (init ++ [last]) = init.map (fun f => (f.id, f.idx)) ++ [(last.id, last.idx)] := by
  simp [idxDir]

theorem repL_entry (fs : FS) (init : List AFile) (last : AFile) (h : RepL fs (init ++ [last])) (hs : IdsSorted ((init ++ [last]).map (·.id)))
    (hlive : last.tail = [] ∧ last.idxTail = []) (sec : Nat) :
    RepL (fs.applyAll [Act.append true last.id (be64 sec), Act.append true last.id (be64 last.log.length)])
      (init ++ [{ last with groups := last.groups ++ [(sec, [])] }]) := by
  constructor
  · simp only [FS.applyAll, List.foldl_cons, List.foldl_nil, FS.apply, h.logs, logDir_snoc]
    simp [AFile.log, groupsBytes_snoc_empty]
  · simp only [FS.applyAll, List.foldl_cons, List.foldl_nil, FS.apply, h.idxs, dir_append_append, idxDir_snoc]
    rw [append_last init last (·.id) (·.idx) hs]
    simp [AFile.idx, AFile.log, hlive.1, hlive.2, idxOf_snoc, encEntry]

theorem repL_lines (fs : FS) (init : List AFile) (last : AFile) (gi : List Group) (gl : Group) (h : RepL fs (init ++ [last]))
    (hs : IdsSorted ((init ++ [last]).map (·.id))) (hg : last.groups = gi ++ [gl]) (hlive : last.tail = []) (items : List MItem) :
    RepL (fs.applyAll (items.map (fun it => Act.append false last.id (lineBytes it))))
      (init ++ [{ last with groups := gi ++ [(gl.1, gl.2 ++ items)] }]) := by
  have e : items.map (fun it => Act.append false last.id (lineBytes it)) = (items.map lineBytes).map (fun bs => Act.append false last.id bs) := by
    simp [List.map_map]
  rw [e, applyAll_log_appends]
  constructor
  · simp only [h.logs, logDir_snoc]
    rw [append_last init last (·.id) (·.log) hs]
    have : (items.map lineBytes).flatten = items.flatMap lineBytes := by simp [List.flatMap]
    simp only [this, AFile.log, groupsBytes_extend, hg, List.append_assoc]
    have e2 : (gi ++ [(gl.1, gl.2)]) = gi ++ [gl] := rfl
    rw [e2]
    simp [hlive]
  · simp only [h.idxs, idxDir_snoc]
    simp [AFile.idx, hg, idxOf_snoc]


/-- the writer's invariant: the directory is, file for file, the abstract log `al`; `B`/`N` bound the bytes of a file and the
number of items (ghost counters) -/
structure WInv (w : Writer) (fs : FS) (al : List AFile) (B N : Nat) : Prop where
  rep : RepL fs al
  ids : IdsSorted (al.map (·.id))
  cur : ∃ init last, al = init ++ [last] ∧ w.cur = some last.id
  days : ∀ f ∈ al, f.id.day ≤ dayOfSec w.latest
  aok : AOk w.latest al B N
  lastSec : ∀ init last, al = init ++ [last] → ∀ gi gl, last.groups = gi ++ [gl] → gl.1 = w.latest
  count : al.length ≤ w.maxFiles ∧ 0 < w.maxFiles

theorem length_drop_new (al : List AFile) (m : Nat) (hm : 0 < m) (x : AFile) : (al.drop (dropCount al.length m) ++ [x]).length ≤ m := by
  simp only [List.length_append, List.length_drop, List.length_singleton, dropCount]
  split <;> omega

theorem new_inv (maxSize maxFiles nowMs : Nat) (w : Writer) (acts : List Act)
    (h : Writer.new {} maxSize maxFiles nowMs = some (w, acts)) :
    ∃ al, WInv w (({} : FS).applyAll acts) al 0 0 ∧ al.flatMap AFile.items = [] := by
  unfold Writer.new at h
  split at h
  · simp at h
  · rename_i hz
    simp only [Option.some.injEq, Prod.mk.injEq] at h
    obtain ⟨hw, ha⟩ := h
    have hrep0 : RepL ({} : FS) [] := ⟨rfl, rfl⟩
    have hr := roll_spec {} [] hrep0 (by simp [IdsSorted]) maxFiles nowMs (by simp)
    simp only [List.drop_nil, List.nil_append] at hr
    refine ⟨[AFile.new (rollActs {} maxFiles nowMs).1], ?_, by simp [AFile.new, AFile.items, groupsItems]⟩
    subst hw ha
    refine ⟨hr.1, hr.2.1, ⟨[], AFile.new (rollActs {} maxFiles nowMs).1, by simp, rfl⟩, ?_, ?_, ?_, ?_⟩
    · intro f hf; simp only [List.mem_singleton] at hf; subst hf; simp only [AFile.new]; rw [hr.2.2]; exact Nat.le_refl _
    · have := (AOk.nil (nowMs / 1000)).drop_new 0 (rollActs {} maxFiles nowMs).1
      simpa using this
    · intro init last hal gi gl hg
      have : last = AFile.new (rollActs {} maxFiles nowMs).1 := by
        have := congrArg List.getLast? hal
        simp at this; exact this.symm
      subst this
      simp [AFile.new] at hg
    · simp only [List.length_singleton]; omega


theorem flatMap_drop_eq {α β} (l : List α) (k : Nat) (f : α → List β) :
    (l.drop k).flatMap f = (l.flatMap f).drop ((l.take k).flatMap f).length := by
  have h : l.flatMap f = (l.take k).flatMap f ++ (l.drop k).flatMap f := by
    rw [← List.flatMap_append, List.take_append_drop]
  rw [h, List.drop_left]

theorem snoc_inj {α} {a b : List α} {x y : α} (h : a ++ [x] = b ++ [y]) : a = b ∧ x = y := by
  have := List.append_inj' h rfl
  exact ⟨this.1, by simpa using this.2⟩

theorem get?_last_log (fs : FS) (init : List AFile) (last : AFile) (h : RepL fs (init ++ [last])) (hs : IdsSorted ((init ++ [last]).map (·.id))) :
    fs.logs.get? last.id = some last.log := by
  rw [h.logs, logDir]
  exact get?_map (init ++ [last]) (·.id) (·.log) hs last (by simp)

theorem lineBytes_ne_nil (it : MItem) : lineBytes it ≠ [] := by simp [lineBytes]

/-! ### the cached position of a long-lived searcher (invariant; used by the writer theorems below) -/

/-- what a cached position promises: the cached file is in the directory or older than everything in it; if it is in the
directory, the cached second is one of its index entries, and if it is its first entry, everything in the files before it is
earlier than that second -/
def CacheInv (al : List AFile) (c : Cache) : Prop :=
  ∀ fid, c.file = some fid →
    (fid ∈ al.map (·.id) ∨ ∀ f ∈ al, fid.lt f.id = true) ∧
    ∀ A x B, al = A ++ x :: B → x.id = fid →
      (∃ g ∈ x.groups, g.1 = c.curSec) ∧
      ∀ g gs, x.groups = g :: gs → g.1 = c.curSec → ∀ y ∈ A, ∀ g' ∈ y.groups, g'.1 < c.curSec

theorem cacheInv_empty (al : List AFile) : CacheInv al {} := by
  intro fid hf; simp at hf


theorem snoc_eq_append_cons {α} (init : List α) (last : α) (A : List α) (x : α) (B : List α) (h : init ++ [last] = A ++ x :: B) :
    (B = [] ∧ A = init ∧ x = last) ∨ ∃ B'', B = B'' ++ [last] ∧ init = A ++ x :: B'' := by
  cases hB : B.reverse with
  | nil =>
    have : B = [] := by simpa using hB
    subst this
    left
    have := snoc_inj h
    exact ⟨rfl, this.1.symm, this.2.symm⟩
  | cons b r =>
    right
    have hB' : B = r.reverse ++ [b] := by
      have := congrArg List.reverse hB; simpa using this
    rw [hB'] at h
    have : init ++ [last] = (A ++ x :: r.reverse) ++ [b] := by simpa [List.append_assoc] using h
    have := snoc_inj this
    exact ⟨r.reverse, by rw [hB', this.2], this.1⟩

/-- the last file gets more index entries / lines: a cached position stays good -/
theorem CacheInv.modLast {init : List AFile} {last last' : AFile} {c : Cache} (h : CacheInv (init ++ [last]) c)
    (hid : last'.id = last.id) (hext : ∃ ext, last'.groups.map (·.1) = last.groups.map (·.1) ++ ext) : CacheInv (init ++ [last']) c := by
  obtain ⟨ext, hext⟩ := hext
  intro fid hfid
  obtain ⟨ha, hb⟩ := h fid hfid
  refine ⟨?_, ?_⟩
  · rcases ha with ha | ha
    · left; simpa [hid] using ha
    · right
      intro f hf
      rcases List.mem_append.mp hf with h1 | h1
      · exact ha f (by simp [h1])
      · simp only [List.mem_singleton] at h1; subst h1; rw [hid]; exact ha last (by simp)
  · intro A' x' B' hal' hx'
    rcases snoc_eq_append_cons init last' A' x' B' hal' with ⟨hB, hA, hx⟩ | ⟨B'', hB, hinit⟩
    · rw [hx] at hx' ⊢
      rw [hA]
      obtain ⟨⟨g0, hg0, hg0s⟩, hearly⟩ := hb init last [] rfl (by rw [← hid]; exact hx')
      have hmem : c.curSec ∈ last'.groups.map (·.1) := by
        rw [hext]; exact List.mem_append.mpr (Or.inl (List.mem_map.mpr ⟨g0, hg0, hg0s⟩))
      obtain ⟨g1, hg1, hg1s⟩ := List.mem_map.mp hmem
      refine ⟨⟨g1, hg1, hg1s⟩, ?_⟩
      intro g' gs' hg' hg's y hy
      -- the first group of `last` has the same second as the first group of `last'`
      cases hl : last.groups with
      | nil => rw [hl] at hg0; simp at hg0
      | cons gl gls =>
        have : gl.1 = g'.1 := by
          rw [hl, hg'] at hext
          simp only [List.map_cons, List.cons_append, List.cons.injEq] at hext
          exact hext.1.symm
        exact hearly gl gls hl (this.trans hg's) y hy
    · subst hB
      have := hb A' x' (B'' ++ [last]) (by rw [hinit]; simp) hx'
      exact this

/-- the oldest files go, a new file with a greater name is added: a cached position stays good -/
theorem CacheInv.dropNew {al : List AFile} {c : Cache} (h : CacheInv al c) (hs : IdsSorted (al.map (·.id))) (hne : al ≠ []) (q : Nat) (nf : FileId)
    (hgt : ∀ g ∈ al.map (·.id), g.lt nf = true) : CacheInv (al.drop q ++ [AFile.new nf]) c := by
  intro fid hfid
  obtain ⟨ha, hb⟩ := h fid hfid
  -- the cached file is not the new one
  have hlt : fid.lt nf = true := by
    rcases ha with ha | ha
    · exact hgt fid ha
    · cases al with
      | nil => exact absurd rfl hne
      | cons a r => exact FileId.lt_trans (ha a (by simp)) (hgt a.id (by simp))
  refine ⟨?_, ?_⟩
  · rcases ha with ha | ha
    · obtain ⟨x, hx, hxid⟩ := List.mem_map.mp ha
      have hxs : x ∈ al.take q ++ al.drop q := by rw [List.take_append_drop]; exact hx
      rcases List.mem_append.mp hxs with h1 | h1
      · right
        intro f hf
        rcases List.mem_append.mp hf with h2 | h2
        · have hs' := hs
          rw [← List.take_append_drop q al, List.map_append, IdsSorted, List.pairwise_append] at hs'
          rw [← hxid]
          exact hs'.2.2 x.id (List.mem_map.mpr ⟨x, h1, rfl⟩) f.id (List.mem_map.mpr ⟨f, h2, rfl⟩)
        · simp only [List.mem_singleton] at h2; subst h2; exact hlt
      · left
        rw [List.map_append]
        exact List.mem_append.mpr (Or.inl (List.mem_map.mpr ⟨x, h1, hxid⟩))
    · right
      intro f hf
      rcases List.mem_append.mp hf with h2 | h2
      · exact ha f (List.mem_of_mem_drop h2)
      · simp only [List.mem_singleton] at h2; subst h2; exact hlt
  · intro A' x' B' hal' hx'
    rcases snoc_eq_append_cons (al.drop q) (AFile.new nf) A' x' B' hal' with ⟨_, _, hx⟩ | ⟨B'', hB, hdrop⟩
    · exfalso
      rw [hx] at hx'
      simp only [AFile.new] at hx'
      rw [← hx', FileId.lt_irrefl] at hlt
      simp at hlt
    · have hal : al = (al.take q ++ A') ++ x' :: B'' := by
        rw [List.append_assoc, ← hdrop, List.take_append_drop]
      obtain ⟨h1, h2⟩ := hb (al.take q ++ A') x' B'' hal hx'
      exact ⟨h1, fun g gs hg hgs y hy => h2 g gs hg hgs y (List.mem_append.mpr (Or.inr hy))⟩


/-- the second half of `write`: index entry if needed, lines, roll-over by size -/
theorem writeTail_inv (w : Writer) (fs1 : FS) (init1 : List AFile) (last1 : AFile) (B N ts : Nat) (items : List MItem)
    (hrep : RepL fs1 (init1 ++ [last1])) (hids : IdsSorted ((init1 ++ [last1]).map (·.id)))
    (hdays : ∀ f ∈ init1 ++ [last1], f.id.day ≤ dayOfSec (ts / 1000))
    (haok : AOk w.latest (init1 ++ [last1]) B N) (hsec : w.latest ≤ ts / 1000)
    (hcount : (init1 ++ [last1]).length ≤ w.maxFiles ∧ 0 < w.maxFiles)
    (hlast : ts / 1000 = w.latest → ∀ gi gl, last1.groups = gi ++ [gl] → gl.1 = w.latest)
    (hgood : ∀ it ∈ items, GoodItem { it with ts := ts }) :
    ∃ al', WInv (w.writeTail fs1 last1.id ts items).1 (fs1.applyAll (w.writeTail fs1 last1.id ts items).2) al'
      (B + ((items.map (fun it => { it with ts := ts })).flatMap lineBytes).length) (N + items.length) ∧
      (∃ k, al'.flatMap AFile.items = ((init1 ++ [last1]).flatMap AFile.items ++ items.map (fun (it : MItem) => ({ it with ts := ts } : MItem))).drop k) ∧
      ∀ c, CacheInv (init1 ++ [last1]) c → CacheInv al' c := by
  have hlive := haok.live last1 (by simp)
  have hpos : ((fs1.logs.get? last1.id).getD []).length = last1.log.length := by
    rw [get?_last_log fs1 init1 last1 hrep hids]; rfl
  -- phase 2: the index entry
  obtain ⟨last2, gi, gl, hid2, hit2, hc2, hg2, hgl, hrep2, haok2⟩ :
      ∃ last2 : AFile, ∃ gi gl, last2.id = last1.id ∧ last2.items = last1.items ∧
        (∀ c, CacheInv (init1 ++ [last1]) c → CacheInv (init1 ++ [last2]) c) ∧ last2.groups = gi ++ [gl] ∧ gl.1 = ts / 1000 ∧
        RepL (fs1.applyAll (if ts / 1000 > w.latest ∨ last1.log.length = 0 then
            [Act.append true last1.id (be64 (ts / 1000)), Act.append true last1.id (be64 last1.log.length)] else [])) (init1 ++ [last2]) ∧
        AOk (ts / 1000) (init1 ++ [last2]) B N := by
    by_cases hc : ts / 1000 > w.latest ∨ last1.log.length = 0
    · simp only [hc, if_true]
      exact ⟨{ last1 with groups := last1.groups ++ [(ts / 1000, [])] }, last1.groups, (ts / 1000, []), rfl,
        by simp [AFile.items, groupsItems], fun c hc => hc.modLast rfl ⟨[ts / 1000], by simp⟩, rfl, rfl,
        repL_entry fs1 init1 last1 hrep hids hlive (ts / 1000), haok.entry (ts / 1000) hsec⟩
    · simp only [hc, if_false]
      have hc' : ts / 1000 = w.latest ∧ last1.log.length ≠ 0 := by omega
      have hne : last1.groups ≠ [] := by
        intro e
        apply hc'.2
        simp [AFile.log, e, hlive.1, groupsBytes]
      obtain ⟨gi, gl, hg⟩ : ∃ gi gl, last1.groups = gi ++ [gl] :=
        ⟨last1.groups.dropLast, last1.groups.getLast hne, (List.dropLast_concat_getLast hne).symm⟩
      refine ⟨last1, gi, gl, rfl, rfl, fun c hc => hc, hg, ?_, by simpa [FS.applyAll] using hrep, haok.mono hsec (Nat.le_refl _) (Nat.le_refl _)⟩
      rw [hlast hc'.1 gi gl hg, hc'.1]
  have hids2 : IdsSorted ((init1 ++ [last2]).map (·.id)) := by
    simpa [hid2] using hids
  have hlive2 := haok2.live last2 (by simp)
  -- phase 3: the lines
  obtain ⟨items', hitems'⟩ : ∃ x, x = items.map (fun it => ({ it with ts := ts } : MItem)) := ⟨_, rfl⟩
  have hlen' : items'.length = items.length := by rw [hitems']; simp
  rw [← hitems', ← hlen']
  have hgood' : ∀ it ∈ items', GoodItem it := by
    intro it hit
    rw [hitems'] at hit
    obtain ⟨x, hx, rfl⟩ := List.mem_map.mp hit
    exact hgood x hx
  have hsec' : ∀ it ∈ items', secOf it = gl.1 := by
    intro it hit
    rw [hitems'] at hit
    obtain ⟨x, hx, rfl⟩ := List.mem_map.mp hit
    rw [hgl]; rfl
  obtain ⟨last3, hlast3⟩ : ∃ x : AFile, x = { last2 with groups := gi ++ [(gl.1, gl.2 ++ items')] } := ⟨_, rfl⟩
  have hrep3 := repL_lines _ init1 last2 gi gl hrep2 hids2 hg2 hlive2.1 items'
  have haok3 := haok2.lines hg2 items' hgood' hsec'
  rw [← hlast3] at hrep3 haok3
  have hid3 : last3.id = last1.id := by rw [hlast3]; exact hid2
  have hitems3 : (init1 ++ [last3]).flatMap AFile.items = (init1 ++ [last1]).flatMap AFile.items ++ items' := by
    have e1 : last3.items = last2.items ++ items' := by
      rw [hlast3]; simp [AFile.items, groupsItems, hg2]
    simp only [List.flatMap_append, List.flatMap_cons, List.flatMap_nil, List.append_nil, e1, hit2, List.append_assoc]
  have hc3 : ∀ c, CacheInv (init1 ++ [last1]) c → CacheInv (init1 ++ [last3]) c := by
    intro c hc
    refine (hc2 c hc).modLast (by rw [hlast3]) ⟨[], ?_⟩
    rw [hlast3, hg2]; simp
  have hids3 : IdsSorted ((init1 ++ [last3]).map (·.id)) := by
    simpa [hlast3] using hids2
  have hacts3 : items.map (fun it => Act.append false last1.id (lineBytes { it with ts := ts })) =
      items'.map (fun it => Act.append false last2.id (lineBytes it)) := by
    simp [hitems', List.map_map, hid2]
  have hdays3 : ∀ f ∈ init1 ++ [last3], f.id.day ≤ dayOfSec (ts / 1000) := by
    intro f hf
    rcases List.mem_append.mp hf with h1 | h1
    · exact hdays f (by simp [h1])
    · simp only [List.mem_singleton] at h1; subst h1
      have := hdays last1 (by simp)
      simpa [hid3] using this
  have hlastSec3 : ∀ gi' gl', last3.groups = gi' ++ [gl'] → gl'.1 = ts / 1000 := by
    intro gi' gl' hg'
    rw [hlast3] at hg'
    have := snoc_inj hg'
    rw [← this.2]; exact hgl
  -- the model's computation
  unfold Writer.writeTail
  simp only [hpos]
  rw [applyAll_append, applyAll_append, ← hitems'] at *
  rw [hacts3]
  generalize hfs3 : (fs1.applyAll (if ts / 1000 > w.latest ∨ last1.log.length = 0 then
            [Act.append true last1.id (be64 (ts / 1000)), Act.append true last1.id (be64 last1.log.length)] else [])).applyAll
            (items'.map (fun it => Act.append false last2.id (lineBytes it))) = fs3 at hrep3 ⊢
  have hmax : max w.latest (ts / 1000) = ts / 1000 := Nat.max_eq_right hsec
  -- phase 4: roll-over by size
  by_cases hroll : ((fs3.logs.get? last1.id).getD []).length ≥ w.maxSize
  · simp only [hroll, if_true]
    have hr := roll_spec fs3 (init1 ++ [last3]) hrep3 hids3 w.maxFiles ts hdays3
    refine ⟨_, ⟨hr.1, hr.2.1, ⟨_, _, rfl, rfl⟩, ?_, ?_, ?_, ?_⟩, ?_, ?_⟩
    rotate_right 2
    · refine ⟨(((init1 ++ [last3]).take (dropCount (init1 ++ [last3]).length w.maxFiles)).flatMap AFile.items).length, ?_⟩
      rw [← hitems3, ← flatMap_drop_eq]
      simp [AFile.new, AFile.items, groupsItems]
    · intro c hc
      exact (hc3 c hc).dropNew hids3 (by simp) _ _ (nextFileId_gt fs3 (init1 ++ [last3]) hrep3 hids3 _ hdays3).2
    · intro f hf
      simp only [hmax]
      rcases List.mem_append.mp hf with h1 | h1
      · exact hdays3 f (List.mem_of_mem_drop h1)
      · simp only [List.mem_singleton] at h1; subst h1; simp only [AFile.new]; rw [hr.2.2]; exact Nat.le_refl _
    · simp only [hmax]; exact haok3.drop_new _ _
    · intro init last hal gi' gl' hg'
      have := (snoc_inj hal).2
      rw [← this] at hg'
      simp [AFile.new] at hg'
    · exact ⟨length_drop_new _ _ hcount.2 _, hcount.2⟩
  · simp only [hroll, if_false, FS.applyAll, List.foldl_nil]
    refine ⟨init1 ++ [last3], ⟨hrep3, hids3, ⟨init1, last3, rfl, by simp [hid3]⟩, ?_, ?_, ?_, ?_⟩, ⟨0, by rw [hitems3]; rfl⟩, hc3⟩
    · simpa only [hmax] using hdays3
    · simpa only [hmax] using haok3
    · intro init last hal gi' gl' hg'
      have := (snoc_inj hal).2
      rw [← this] at hg'
      simp only [hmax]
      exact hlastSec3 gi' gl' hg'
    · have : (init1 ++ [last3]).length = (init1 ++ [last1]).length := by simp
      rw [this]; exact hcount


theorem dayOfSec_mono {a b : Nat} (h : a ≤ b) : dayOfSec a ≤ dayOfSec b := by
  unfold dayOfSec; exact Nat.div_le_div_right h

/-- the items a `write` call adds to the log (none when the call is refused or ignored) -/
def accepted (w : Writer) (ts : Nat) (items : List MItem) : List MItem :=
  if items.isEmpty = true ∨ ts = 0 ∨ w.cur = none ∨ ts / 1000 < w.latest then []
  else items.map (fun (it : MItem) => ({ it with ts := ts } : MItem))

theorem drop_append_drop {α} (X Y : List α) (a k : Nat) (ha : a ≤ X.length) : (X.drop a ++ Y).drop k = (X ++ Y).drop (a + k) := by
  rw [← List.drop_drop, List.drop_append_of_le_length ha]

/-- **one `write` keeps the invariant**, and the log then holds what it held before plus the accepted items, minus the files
removed by retention (a prefix) -/
theorem write_inv (w : Writer) (fs : FS) (al : List AFile) (B N ts : Nat) (items : List MItem) (h : WInv w fs al B N)
    (hgood : ∀ it ∈ items, GoodItem { it with ts := ts }) :
    ∃ al', WInv (w.write fs ts items).1 (fs.applyAll (w.write fs ts items).2.1) al'
      (B + ((items.map (fun it => { it with ts := ts })).flatMap lineBytes).length) (N + items.length) ∧
      (∃ k, al'.flatMap AFile.items = (al.flatMap AFile.items ++ accepted w ts items).drop k) ∧
      ∀ c, CacheInv al c → CacheInv al' c := by
  have hstay : WInv w fs al (B + ((items.map (fun it => { it with ts := ts })).flatMap lineBytes).length) (N + items.length) :=
    ⟨h.rep, h.ids, h.cur, h.days, h.aok.mono (Nat.le_refl _) (Nat.le_add_right _ _) (Nat.le_add_right _ _), h.lastSec, h.count⟩
  obtain ⟨init, last, hal, hcur⟩ := h.cur
  unfold Writer.write accepted
  by_cases hemp : items.isEmpty = true
  · simp only [hemp, if_true, true_or]; exact ⟨al, by simpa [FS.applyAll] using hstay, ⟨0, by simp⟩, fun c hc => hc⟩
  simp only [hemp, Bool.false_eq_true, if_false, false_or]
  by_cases hts : ts = 0
  · simp only [hts, if_true, true_or]; exact ⟨al, by simpa [FS.applyAll, hts] using hstay, ⟨0, by simp⟩, fun c hc => hc⟩
  simp only [hts, if_false, hcur, false_or]
  by_cases hold : ts / 1000 < w.latest
  · simp only [hold, if_true, or_true]; exact ⟨al, by simpa [FS.applyAll] using hstay, ⟨0, by simp⟩, fun c hc => hc⟩
  simp only [hold, if_false, reduceCtorEq, or_self]
  have hsec : w.latest ≤ ts / 1000 := by omega
  rw [applyAll_append]
  by_cases hroll : ts / 1000 > w.latest ∧ dayOfSec (ts / 1000) > dayOfSec w.latest
  · simp only [hroll, and_self, if_true]
    have hdaysAl : ∀ f ∈ al, f.id.day ≤ dayOfSec (ts / 1000) := fun f hf => Nat.le_trans (h.days f hf) (dayOfSec_mono hsec)
    have hr := roll_spec fs al h.rep h.ids w.maxFiles ts hdaysAl
    have haok1 := h.aok.drop_new (dropCount al.length w.maxFiles) (rollActs fs w.maxFiles ts).1
    obtain ⟨al', hinv, ⟨k, hk⟩, hcache⟩ := writeTail_inv w (fs.applyAll (rollActs fs w.maxFiles ts).2) (al.drop (dropCount al.length w.maxFiles))
      (AFile.new (rollActs fs w.maxFiles ts).1) B N ts items hr.1 hr.2.1
      (by
        intro f hf
        rcases List.mem_append.mp hf with h1 | h1
        · exact hdaysAl f (List.mem_of_mem_drop h1)
        · simp only [List.mem_singleton] at h1; subst h1; simp only [AFile.new]; rw [hr.2.2]; exact Nat.le_refl _)
      haok1 hsec ⟨length_drop_new _ _ h.count.2 _, h.count.2⟩
      (by intro e; omega) hgood
    refine ⟨al', by simpa [AFile.new] using hinv, ⟨((al.take (dropCount al.length w.maxFiles)).flatMap AFile.items).length + k, ?_⟩,
      fun c hc => hcache c (hc.dropNew h.ids (by rw [hal]; simp) _ _ (nextFileId_gt fs al h.rep h.ids _ hdaysAl).2)⟩
    rw [hk]
    have e1 : (al.drop (dropCount al.length w.maxFiles) ++ [AFile.new (rollActs fs w.maxFiles ts).1]).flatMap AFile.items =
        (al.flatMap AFile.items).drop ((al.take (dropCount al.length w.maxFiles)).flatMap AFile.items).length := by
      rw [← flatMap_drop_eq]; simp [AFile.new, AFile.items, groupsItems]
    rw [e1]
    apply drop_append_drop
    have h2 : al.flatMap AFile.items = (al.take (dropCount al.length w.maxFiles)).flatMap AFile.items ++ (al.drop (dropCount al.length w.maxFiles)).flatMap AFile.items := by
      rw [← List.flatMap_append, List.take_append_drop]
    rw [h2, List.length_append]; omega
  · simp only [hroll, if_false]
    rw [hal] at h ⊢
    obtain ⟨al', hinv, ⟨k, hk⟩, hcache⟩ := writeTail_inv w fs init last B N ts items h.rep h.ids
      (fun f hf => Nat.le_trans (h.days f hf) (dayOfSec_mono hsec)) h.aok hsec h.count
      (fun _ gi gl hg => h.lastSec init last rfl gi gl hg) hgood
    exact ⟨al', by simpa [FS.applyAll] using hinv, ⟨k, hk⟩, hcache⟩


/-- a write history: `(ts, items)` per call. Result: the writer, the directory, and the items accepted on the way -/
def runWrites (w : Writer) (fs : FS) : List (Nat × List MItem) → Writer × FS × List MItem
  | [] => (w, fs, [])
  | (ts, items) :: rest =>
    let r := w.write fs ts items
    let t := runWrites r.1 (fs.applyAll r.2.1) rest
    (t.1, t.2.1, accepted w ts items ++ t.2.2)

def stamp (ts : Nat) (items : List MItem) : List MItem := items.map (fun (it : MItem) => ({ it with ts := ts } : MItem))

def histBytes : List (Nat × List MItem) → Nat
  | [] => 0
  | (ts, items) :: rest => ((stamp ts items).flatMap lineBytes).length + histBytes rest

def histItems : List (Nat × List MItem) → Nat
  | [] => 0
  | (_, items) :: rest => items.length + histItems rest

theorem drop_min {α} (L : List α) (k : Nat) : L.drop k = L.drop (min k L.length) := by
  by_cases h : k ≤ L.length
  · rw [Nat.min_eq_left h]
  · rw [Nat.min_eq_right (by omega), List.drop_eq_nil_of_le (by omega), List.drop_eq_nil_of_le (Nat.le_refl _)]

theorem run_inv (hist : List (Nat × List MItem)) (w : Writer) (fs : FS) (al : List AFile) (B N : Nat) (h : WInv w fs al B N)
    (hgood : ∀ p ∈ hist, ∀ it ∈ p.2, GoodItem { it with ts := p.1 }) :
    ∃ al', WInv (runWrites w fs hist).1 (runWrites w fs hist).2.1 al' (B + histBytes hist) (N + histItems hist) ∧
      ∃ k, al'.flatMap AFile.items = (al.flatMap AFile.items ++ (runWrites w fs hist).2.2).drop k := by
  induction hist generalizing w fs al B N with
  | nil => exact ⟨al, by simpa [runWrites, histBytes, histItems] using h, 0, by simp [runWrites]⟩
  | cons p rest ih =>
    obtain ⟨ts, items⟩ := p
    obtain ⟨al1, hinv1, ⟨k1, hk1⟩, _⟩ := write_inv w fs al B N ts items h (hgood (ts, items) (by simp))
    obtain ⟨al2, hinv2, k2, hk2⟩ := ih (w.write fs ts items).1 (fs.applyAll (w.write fs ts items).2.1) al1 _ _ hinv1
      (fun p hp => hgood p (by simp [hp]))
    refine ⟨al2, ?_, min k1 (al.flatMap AFile.items ++ accepted w ts items).length + k2, ?_⟩
    · simp only [runWrites, histBytes, histItems, stamp]
      have e1 : B + (((items.map (fun (it : MItem) => ({ it with ts := ts } : MItem))).flatMap lineBytes).length + histBytes rest) =
          B + ((items.map (fun (it : MItem) => ({ it with ts := ts } : MItem))).flatMap lineBytes).length + histBytes rest := by omega
      have e2 : N + (items.length + histItems rest) = N + items.length + histItems rest := by omega
      rw [e1, e2]; exact hinv2
    · simp only [runWrites]
      rw [hk2, hk1, drop_min (al.flatMap AFile.items ++ accepted w ts items) k1, ← List.append_assoc]
      exact drop_append_drop _ _ _ _ (Nat.min_le_right _ _)


theorem write_latest_le (w : Writer) (fs : FS) (ts : Nat) (items : List MItem) (M : Nat) (h1 : w.latest ≤ M) (h2 : ts / 1000 ≤ M) :
    (w.write fs ts items).1.latest ≤ M := by
  unfold Writer.write
  split
  · exact h1
  · split
    · exact h1
    · split
      · exact h1
      · simp only []
        split
        · exact h1
        · simp only [Writer.writeTail]
          exact Nat.max_le.mpr ⟨h1, h2⟩

theorem run_latest_le (hist : List (Nat × List MItem)) (w : Writer) (fs : FS) (M : Nat) (h1 : w.latest ≤ M) (h2 : ∀ p ∈ hist, p.1 / 1000 ≤ M) :
    (runWrites w fs hist).1.latest ≤ M := by
  induction hist generalizing w fs with
  | nil => exact h1
  | cons p rest ih =>
    obtain ⟨ts, items⟩ := p
    simp only [runWrites]
    exact ih _ _ (write_latest_le w fs ts items M h1 (h2 (ts, items) (by simp))) (fun p hp => h2 p (by simp [hp]))

/-- the writer's invariant gives what the search theorem needs -/
theorem winv_rep_wf (w : Writer) (fs : FS) (al : List AFile) (B N : Nat) (h : WInv w fs al B N)
    (hB : B < 18446744073709551616) (hN : N < MAX_ITEM_AMOUNT) (hL : w.latest < 18446744073709551616) :
    Rep fs al ∧ WF al ∧ ∀ f ∈ al, f.tail = [] ∧ f.idxTail = [] := by
  refine ⟨⟨listLogs_repL fs al h.rep h.ids, ?_, ?_⟩, ⟨h.aok.sorted, h.aok.itemSecs, h.aok.good, ?_, ?_, Nat.lt_of_le_of_lt h.aok.items hN⟩, h.aok.live⟩
  · intro f hf
    rw [h.rep.logs, logDir]
    exact get?_map al (·.id) (·.log) h.ids f hf
  · intro f hf
    left
    rw [h.rep.idxs, idxDir]
    exact get?_map al (·.id) (·.idx) h.ids f hf
  · intro f hf
    exact ⟨fun g hg => Nat.lt_of_le_of_lt (h.aok.secsLe f hf g hg) hL, Nat.lt_of_le_of_lt (h.aok.bytes f hf) hB⟩
  · intro f hf
    have := h.aok.live f hf
    rw [this.1, this.2]; simp


/-! ### the line-limited read -/

/-- `linesLoop` on parsed items -/
def absLines (n prev : Nat) : List MItem → Nat → List MItem → ReadRes
  | [], _, acc => ⟨acc.reverse, decide (prev + acc.length < n)⟩
  | it :: rest, lastSec, acc =>
    if prev + acc.length ≥ n ∧ it.ts / 1000 ≠ lastSec then ⟨acc.reverse, false⟩ else absLines n prev rest (it.ts / 1000) (it :: acc)

theorem linesLoop_good (n prev : Nat) (its : List MItem) (lastSec : Nat) (acc : List MItem) (hg : ∀ it ∈ its, GoodItem it) :
    linesLoop n prev (its.map lineOf) lastSec acc = absLines n prev (its.map stored) lastSec acc := by
  induction its generalizing lastSec acc with
  | nil => simp [linesLoop, absLines]
  | cons it rest ih =>
    have hgi := hg it (by simp)
    have hp : parseLine (dropAllCR (lineOf it)) = some (stored it) := by
      rw [dropAllCR_id _ (lineOf_no_cr it hgi), parseLine_lineOf it hgi]
    simp only [List.map_cons, linesLoop, absLines, hp]
    by_cases hc : prev + acc.length ≥ n ∧ (stored it).ts / 1000 ≠ lastSec
    · rw [if_pos hc, if_pos hc]
    · rw [if_neg hc, if_neg hc]; exact ih _ _ (fun x hx => hg x (by simp [hx]))

theorem exists_getLast? {α} (l : List α) (h : l ≠ []) : ∃ x, l.getLast? = some x := by
  cases hl : l.getLast? with
  | none => exact absurd (List.getLast?_eq_none_iff.mp hl) h
  | some x => exact ⟨x, rfl⟩

/-- beyond the first `n` items everything lies in the second of the `n`-th -/
def Whole (n : Nat) (P : List MItem) : Prop := ∀ it ∈ P.drop n, ∀ l, (P.take n).getLast? = some l → secOf it = secOf l

theorem absLines_spec (n prev : Nat) (hn : 1 ≤ n) (its : List MItem) (P0 : List MItem) (hprev : P0.length = prev) (lastSec : Nat) (acc : List MItem)
    (hlast : ∀ l, (P0 ++ acc.reverse).getLast? = some l → lastSec = secOf l) (hw : Whole n (P0 ++ acc.reverse)) :
    ∃ Q, (absLines n prev its lastSec acc).items = acc.reverse ++ Q ∧ Q <+: its ∧ Whole n (P0 ++ acc.reverse ++ Q) ∧
      ((absLines n prev its lastSec acc).cont = true → Q = its ∧ (P0 ++ acc.reverse ++ Q).length < n) ∧
      ((absLines n prev its lastSec acc).cont = false → (P0 ++ acc.reverse ++ Q).length ≥ n) := by
  have hlen : ∀ a : List MItem, (P0 ++ a.reverse).length = prev + a.length := by intro a; simp [hprev]
  induction its generalizing lastSec acc with
  | nil =>
    refine ⟨[], by simp [absLines], List.prefix_refl _, by simpa using hw, ?_, ?_⟩
    · intro h; simp only [absLines, decide_eq_true_eq] at h; simp [hprev]; omega
    · intro h; simp only [absLines, decide_eq_false_iff_not] at h; simp [hprev]; omega
  | cons it rest ih =>
    simp only [absLines]
    change ∃ Q, (if prev + acc.length ≥ n ∧ secOf it ≠ lastSec then (⟨acc.reverse, false⟩ : ReadRes) else absLines n prev rest (secOf it) (it :: acc)).items = _ ∧ _ ∧ _ ∧
      ((if prev + acc.length ≥ n ∧ secOf it ≠ lastSec then (⟨acc.reverse, false⟩ : ReadRes) else absLines n prev rest (secOf it) (it :: acc)).cont = true → _) ∧
      ((if prev + acc.length ≥ n ∧ secOf it ≠ lastSec then (⟨acc.reverse, false⟩ : ReadRes) else absLines n prev rest (secOf it) (it :: acc)).cont = false → _)
    by_cases hstop : prev + acc.length ≥ n ∧ secOf it ≠ lastSec
    · rw [if_pos hstop]
      refine ⟨[], by simp, List.nil_prefix, by simpa using hw, by simp, ?_⟩
      intro _; simp [hprev]; omega
    · rw [if_neg hstop]
      have hw' : Whole n (P0 ++ (it :: acc).reverse) := by
        intro x hx l hl
        simp only [List.reverse_cons, ← List.append_assoc] at hx hl
        by_cases hc : (P0 ++ acc.reverse).length < n
        · -- the new item is among the first n
          have : ((P0 ++ acc.reverse) ++ [it]).drop n = [] := by
            apply List.drop_eq_nil_of_le; rw [List.length_append, List.length_singleton]; omega
          rw [this] at hx; simp at hx
        · have hge : n ≤ (P0 ++ acc.reverse).length := by omega
          rw [List.take_append_of_le_length hge] at hl
          rw [List.drop_append_of_le_length hge] at hx
          rcases List.mem_append.mp hx with h1 | h1
          · exact hw x h1 l hl
          · simp only [List.mem_singleton] at h1; subst h1
            -- taken although the count is reached: same second as the previous item
            have hcnt : prev + acc.length ≥ n := by rw [hlen acc] at hge; exact hge
            have hsame : secOf x = lastSec := by
              by_cases e : secOf x = lastSec
              · exact e
              · exact absurd ⟨hcnt, e⟩ hstop
            have hne : P0 ++ acc.reverse ≠ [] := by intro e; rw [e] at hge; simp at hge; omega
            obtain ⟨pl, hpl⟩ := exists_getLast? _ hne
            rw [hsame, hlast pl hpl]
            -- the previous item is the n-th item or lies beyond it
            by_cases hc2 : (P0 ++ acc.reverse).length = n
            · rw [List.take_of_length_le (by omega)] at hl
              rw [hpl] at hl; simp at hl; rw [hl]
            · have : pl ∈ (P0 ++ acc.reverse).drop n := by
                have hlt : n < (P0 ++ acc.reverse).length := by omega
                have hne2 : (P0 ++ acc.reverse).drop n ≠ [] := by
                  intro e; have := congrArg List.length e; rw [List.length_drop, List.length_nil] at this; omega
                obtain ⟨x, hx⟩ := exists_getLast? _ hne2
                have hsplit : (P0 ++ acc.reverse).getLast? = ((P0 ++ acc.reverse).take n ++ (P0 ++ acc.reverse).drop n).getLast? := by
                  rw [List.take_append_drop]
                rw [hsplit, List.getLast?_append, hx] at hpl
                simp at hpl
                rw [← hpl]; exact List.mem_of_getLast? hx
              exact hw pl this l hl
      obtain ⟨Q, h1, h2, h3, h4, h5⟩ := ih (secOf it) (it :: acc)
        (by intro l hl; simp only [List.reverse_cons, ← List.append_assoc, List.getLast?_append, List.getLast?_singleton] at hl; simp at hl; rw [← hl])
        hw'
      refine ⟨it :: Q, ?_, ?_, ?_, ?_, ?_⟩
      · rw [h1]; simp
      · exact List.prefix_cons_inj it |>.mpr h2
      · simpa [List.append_assoc] using h3
      · intro hc; obtain ⟨e, hl⟩ := h4 hc; exact ⟨by rw [e], by simpa [List.append_assoc] using hl⟩
      · intro hc; have := h5 hc; simpa [List.append_assoc] using this


theorem linesOneFile_live (gs pre post : List Group) (hsplit : gs = pre ++ post) (n lastSec prev : Nat)
    (hg : ∀ it ∈ groupsItems post, GoodItem it) :
    linesOneFile (groupsBytes gs) (groupsBytes pre).length n lastSec prev = absLines n prev ((groupsItems post).map stored) lastSec [] := by
  unfold linesOneFile
  rw [hsplit, groupsBytes_append, List.drop_left, groupsBytes_eq_items post]
  have h1 := splitLines_items (groupsItems post) hg []
  simp only [List.append_nil, splitLines] at h1
  rw [h1, linesLoop_good n prev (groupsItems post) lastSec [] hg]

theorem latestSecond_spec (P : List MItem) : ∀ l, P.getLast? = some l → latestSecond P = secOf l := by
  intro l hl; simp [latestSecond, hl, secOf]

theorem whole_nil (n : Nat) : Whole n [] := by intro it hit; simp at hit

theorem linesRest_spec (fs : FS) (n : Nat) (hn : 1 ≤ n) (B : List AFile) (hlogs : ∀ f ∈ B, fs.logs.get? f.id = some f.log)
    (hlive : ∀ f ∈ B, f.tail = []) (hgood : ∀ f ∈ B, ∀ it ∈ f.items, GoodItem it) (P : List MItem) (hw : Whole n P) :
    ∃ Q, linesRest fs n (B.map (·.id)) P = some (P ++ Q) ∧ Q <+: (B.flatMap AFile.items).map stored ∧ Whole n (P ++ Q) ∧
      ((P ++ Q).length ≥ n ∨ Q = (B.flatMap AFile.items).map stored) := by
  induction B generalizing P with
  | nil => exact ⟨[], by simp [linesRest], by simp, by simpa using hw, Or.inr (by simp)⟩
  | cons f rest ih =>
    simp only [List.map_cons, linesRest]
    by_cases hfull : P.length ≥ n
    · rw [if_pos hfull]
      exact ⟨[], by simp, List.nil_prefix, by simpa using hw, Or.inl (by simpa using hfull)⟩
    · rw [if_neg hfull]
      simp only [hlogs f (by simp)]
      have hlog : f.log = groupsBytes f.groups := by simp [AFile.log, hlive f (by simp)]
      have hr := linesOneFile_live f.groups [] f.groups rfl n (latestSecond P) P.length (hgood f (by simp))
      have h0 : (groupsBytes []).length = 0 := rfl
      rw [h0] at hr
      rw [hlog, hr]
      obtain ⟨Q1, q1, q2, q3, q4, q5⟩ := absLines_spec n P.length hn ((groupsItems f.groups).map stored) P rfl (latestSecond P) []
        (by simpa using latestSecond_spec P) (by simpa using hw)
      simp only [List.reverse_nil, List.nil_append, List.append_nil] at q1 q3 q4 q5
      by_cases hc : (absLines n P.length ((groupsItems f.groups).map stored) (latestSecond P) []).cont = true
      · rw [if_pos hc, q1]
        obtain ⟨e, _⟩ := q4 hc
        obtain ⟨Q2, r1, r2, r3, r4⟩ := ih (fun x hx => hlogs x (by simp [hx])) (fun x hx => hlive x (by simp [hx]))
          (fun x hx => hgood x (by simp [hx])) (P ++ Q1) q3
        refine ⟨Q1 ++ Q2, by rw [r1, List.append_assoc], ?_, by simpa [List.append_assoc] using r3, ?_⟩
        · rw [e]; simp only [List.flatMap_cons, List.map_append, AFile.items]
          exact (List.prefix_append_right_inj _).mpr r2
        · rcases r4 with h | h
          · left; simpa [List.append_assoc] using h
          · right; rw [e, h]; simp [AFile.items]
      · rw [if_neg hc, q1]
        have hc' : (absLines n P.length ((groupsItems f.groups).map stored) (latestSecond P) []).cont = false := by simpa using hc
        refine ⟨Q1, rfl, ?_, q3, Or.inl (q5 hc')⟩
        simp only [List.flatMap_cons, List.map_append, AFile.items]
        exact List.IsPrefix.trans q2 (List.prefix_append _ _)


theorem pairwise_le_last (l : List MItem) (hp : l.Pairwise (fun a b => secOf a ≤ secOf b)) (x last : MItem)
    (hx : x ∈ l) (hl : l.getLast? = some last) : secOf x ≤ secOf last := by
  induction l with
  | nil => simp at hx
  | cons a r ih =>
    have hp' := List.pairwise_cons.mp hp
    cases r with
    | nil =>
      simp only [List.getLast?_singleton, Option.some.injEq] at hl
      simp only [List.mem_singleton] at hx
      rw [hx, hl]; exact Nat.le_refl _
    | cons b t =>
      have hl' : (b :: t).getLast? = some last := by simpa [List.getLast?_cons_cons] using hl
      rcases List.mem_cons.mp hx with e | e
      · rw [e]; exact hp'.1 last (List.mem_of_getLast? hl')
      · exact ih hp'.2 e hl'

theorem fromSec_assemble (early frm : List MItem) (b : Nat) (hearly : ∀ it ∈ early, secOf it < b / 1000) (hlo : ∀ it ∈ frm, b / 1000 ≤ secOf it) :
    fromSec ((early ++ frm).map stored) b = frm.map stored := by
  unfold fromSec
  rw [List.map_append, List.filter_append]
  have h1 : (early.map stored).filter (fun it => decide (b / 1000 ≤ it.ts / 1000)) = [] := by
    rw [List.filter_eq_nil_iff]
    intro x hx
    obtain ⟨it, hit, rfl⟩ := List.mem_map.mp hx
    have := hearly it hit
    simp only [secOf] at this
    simp only [stored_ts]
    intro h
    have := of_decide_eq_true h
    omega
  have h2 : (frm.map stored).filter (fun it => decide (b / 1000 ≤ it.ts / 1000)) = frm.map stored := by
    rw [List.filter_eq_self]
    intro x hx
    obtain ⟨it, hit, rfl⟩ := List.mem_map.mp hx
    have := hlo it hit
    simp only [secOf] at this
    simp only [stored_ts]
    exact decide_eq_true this
  rw [h1, h2, List.nil_append]

/-- what the line-limited read returns meets the Spec -/
theorem specLinesOk_of (held l R : List MItem) (b n : Nat) (hn : 1 ≤ n) (hfrom : fromSec held b = l)
    (hsorted : l.Pairwise (fun a b => secOf a ≤ secOf b)) (hpre : R <+: l) (hlen : R.length ≥ n ∨ R = l) (hw : Whole n R) :
    specLinesOk held b n R = true := by
  unfold specLinesOk
  simp only [hfrom]
  have h1 : (R == l.take R.length) = true := by
    rw [beq_iff_eq]; exact List.prefix_iff_eq_take.mp hpre
  have h2 : decide (R.length ≥ min n l.length) = true := by
    rw [decide_eq_true_eq]
    rcases hlen with h | h
    · exact Nat.le_trans (Nat.min_le_left _ _) h
    · rw [h]; exact Nat.min_le_right _ _
  rw [h1, h2, Bool.true_and, Bool.true_and]
  obtain ⟨k, rfl⟩ : ∃ k, n = k + 1 := ⟨n - 1, by omega⟩
  simp only [Nat.add_sub_cancel]
  cases hk : l[k]? with
  | none => rfl
  | some last =>
    simp only [List.all_eq_true, decide_eq_true_eq]
    intro it hit
    have hklt : k < l.length := by
      by_cases h : k < l.length
      · exact h
      · rw [List.getElem?_eq_none (by omega)] at hk; simp at hk
    have hRlen : R.length ≥ k + 1 := by
      rcases hlen with h | h
      · exact h
      · rw [h]; omega
    -- the (k+1)-th item of R is `last`
    have hRtake : R.take (k + 1) = l.take (k + 1) := by
      have := List.prefix_iff_eq_take.mp hpre
      rw [this, List.take_take, Nat.min_eq_left hRlen]
    have hlastR : (R.take (k + 1)).getLast? = some last := by
      rw [hRtake, List.getLast?_take]
      simp [hk]
    have hsortedR : (R.take (k + 1)).Pairwise (fun a b => secOf a ≤ secOf b) := by
      rw [hRtake]; exact List.Pairwise.sublist (List.take_sublist _ _) hsorted
    have hmem : it ∈ R.take (k + 1) ∨ it ∈ R.drop (k + 1) := by
      rw [← List.mem_append, List.take_append_drop]; exact hit
    rcases hmem with h | h
    · exact pairwise_le_last _ hsortedR it last h hlastR
    · have := hw it h last hlastR
      simp only [secOf] at this
      omega


/-- where a search for begin time `b` starts in a well-formed directory: nowhere (everything is earlier), or at a group of a
file such that everything before is earlier and everything from there on is sorted and not earlier -/
theorem start_decomp (fs : FS) (al : List AFile) (hrep : Rep fs al) (hwf : WF al) (b : Nat) :
    (findStart fs (b / 1000) (al.map (·.id)) = none ∧ ∀ it ∈ al.flatMap AFile.items, secOf it < b / 1000) ∨
    ∃ A f B pre g post,
      al = A ++ f :: B ∧ f.groups = pre ++ g :: post ∧
      findStart fs (b / 1000) (al.map (·.id)) = some (f.id :: B.map (·.id), g.1, (groupsBytes pre).length) ∧
      al.flatMap AFile.items = (A.flatMap AFile.items ++ groupsItems pre) ++ (groupsItems (g :: post) ++ B.flatMap AFile.items) ∧
      (∀ it ∈ A.flatMap AFile.items ++ groupsItems pre, secOf it < b / 1000) ∧
      (∀ it ∈ groupsItems (g :: post) ++ B.flatMap AFile.items, b / 1000 ≤ secOf it) ∧
      (groupsItems (g :: post) ++ B.flatMap AFile.items).Pairwise (fun x y => secOf x ≤ secOf y) := by
  rw [findStart_spec fs al (b / 1000) (fun f hf => idx_lookup fs f _ (hrep.idxs f hf) (hwf.small f hf) (hwf.tails f hf).2)]
  cases hd : al.dropWhile (fun f => (firstOffset f.groups (b / 1000)).isNone) with
  | nil =>
    left
    refine ⟨rfl, ?_⟩
    intro it hit
    obtain ⟨f, hf, hif⟩ := List.mem_flatMap.mp hit
    obtain ⟨g, hg, hig⟩ := List.mem_flatMap.mp hif
    have hnone := dropWhile_nil_all _ _ hd f hf
    rw [hwf.secs f hf g hg it hig]
    exact firstOffset_none f.groups _ (by simpa using hnone) g hg
  | cons f B =>
    right
    have hal : al = al.takeWhile (fun f => (firstOffset f.groups (b / 1000)).isNone) ++ f :: B := by
      rw [← hd, List.takeWhile_append_dropWhile]
    generalize hA : al.takeWhile (fun f => (firstOffset f.groups (b / 1000)).isNone) = A at hal
    have hAearly : ∀ x ∈ A, (firstOffset x.groups (b / 1000)) = none := by
      intro x hx
      have := takeWhile_all_mem _ _ x (hA ▸ hx)
      simpa using this
    have hfsome := dropWhile_head_not _ _ _ _ hd
    simp only [Option.isNone_eq_false_iff, Option.isSome_iff_exists] at hfsome
    obtain ⟨⟨sec, off⟩, hfo⟩ := hfsome
    obtain ⟨pre, g, post, hgs, hpre, hg, hsec, hoff⟩ := firstOffset_some f.groups _ sec off hfo
    have hfmem : f ∈ al := by rw [hal]; simp
    have hBmem : ∀ x ∈ B, x ∈ al := by intro x hx; rw [hal]; simp [hx]
    have hAmem : ∀ x ∈ A, x ∈ al := by intro x hx; rw [hal]; simp [hx]
    have hallitems : al.flatMap AFile.items = (A.flatMap AFile.items ++ groupsItems pre) ++ (groupsItems (g :: post) ++ B.flatMap AFile.items) := by
      rw [hal]
      simp only [List.flatMap_append, List.flatMap_cons, AFile.items, hgs, groupsItems, List.append_assoc]
    have hearly : ∀ it ∈ A.flatMap AFile.items ++ groupsItems pre, secOf it < b / 1000 := by
      intro it hit
      rcases List.mem_append.mp hit with h | h
      · obtain ⟨x, hx, hix⟩ := List.mem_flatMap.mp h
        obtain ⟨g', hg', hig⟩ := List.mem_flatMap.mp hix
        rw [hwf.secs x (hAmem x hx) g' hg' it hig]
        exact firstOffset_none x.groups _ (hAearly x hx) g' hg'
      · obtain ⟨g', hg', hig⟩ := List.mem_flatMap.mp h
        rw [hwf.secs f hfmem g' (by rw [hgs]; simp [hg']) it hig]
        exact hpre g' hg'
    have hsortedAll := hwf.sorted
    rw [hal] at hsortedAll
    simp only [List.flatMap_append, List.flatMap_cons, hgs, List.map_append, List.map_cons] at hsortedAll
    have hsub : ((g :: post) ++ B.flatMap (·.groups)).map (·.1) = g.1 :: (post.map (·.1) ++ B.flatMap (fun f => f.groups.map (·.1))) := by
      simp [List.map_flatMap]
    have hsortedFrom : (((g :: post) ++ B.flatMap (·.groups)).map (·.1)).Pairwise (· ≤ ·) := by
      rw [hsub]
      have h1 := (List.pairwise_append.mp hsortedAll).2.1
      have h4 : ((pre.map (·.1) ++ g.1 :: post.map (·.1)) ++ B.flatMap (fun f => f.groups.map (·.1))).Pairwise (· ≤ ·) := h1
      rw [List.append_assoc] at h4
      exact (List.pairwise_append.mp h4).2.1
    have hsecsFrom : ∀ g' ∈ (g :: post) ++ B.flatMap (·.groups), ∀ it ∈ g'.2, secOf it = g'.1 := by
      intro g' hg' it hit
      rcases List.mem_append.mp hg' with h | h
      · exact hwf.secs f hfmem g' (by rw [hgs]; simp [List.mem_cons.mp h]) it hit
      · obtain ⟨x, hx, hgx⟩ := List.mem_flatMap.mp h
        exact hwf.secs x (hBmem x hx) g' hgx it hit
    have hfromEq : groupsItems (g :: post) ++ B.flatMap AFile.items = groupsItems ((g :: post) ++ B.flatMap (·.groups)) := by
      rw [items_flatMap_groups]; simp [groupsItems]
    have hsortedItems := groupsItems_sorted _ hsecsFrom hsortedFrom
    have hlo : ∀ it ∈ groupsItems ((g :: post) ++ B.flatMap (·.groups)), b / 1000 ≤ secOf it := by
      intro it hit
      obtain ⟨g', hg', hig⟩ := List.mem_flatMap.mp hit
      rw [hsecsFrom g' hg' it hig]
      rw [hsub] at hsortedFrom
      rcases List.mem_append.mp hg' with h | h
      · rcases List.mem_cons.mp h with e | e
        · rw [e]; exact hg
        · have := (List.pairwise_cons.mp hsortedFrom).1 g'.1 (List.mem_append.mpr (Or.inl (List.mem_map.mpr ⟨g', e, rfl⟩)))
          omega
      · obtain ⟨x, hx, hgx⟩ := List.mem_flatMap.mp h
        have := (List.pairwise_cons.mp hsortedFrom).1 g'.1 (List.mem_append.mpr (Or.inr (List.mem_flatMap.mpr ⟨x, hx, List.mem_map.mpr ⟨g', hgx, rfl⟩⟩)))
        omega
    refine ⟨A, f, B, pre, g, post, hal, hgs, ?_, hallitems, hearly, by rw [hfromEq]; exact hlo, by rw [hfromEq]; exact hsortedItems⟩
    simp only [hfo, Option.map_some, hsec, hoff]


/-! ### crash states: the last file may end in a torn line -/

theorem splitLines_torn (t : Bytes) (h : 10 ∉ t) : splitLines t = if t = [] then [] else [t] := by
  by_cases e : t = []
  · simp [e, splitLines]
  · simp [e, splitLines_tail t h e]

/-- reading a file that ends in a torn line: the complete lines as always, then at most one more item (the torn line misread) -/
theorem rangeOneFile_torn (gs pre post : List Group) (hsplit : gs = pre ++ post) (t : Bytes) (ht : 10 ∉ t) (bs es : Nat) (res : List Char) (prev : Nat)
    (hg : ∀ it ∈ groupsItems post, GoodItem it) (hcap : prev + (groupsItems post).length + 1 < MAX_ITEM_AMOUNT) :
    ∃ extra c, extra.length ≤ 1 ∧
      rangeOneFile (groupsBytes gs ++ t) (groupsBytes pre).length bs es res prev =
        ⟨(((groupsItems post).map stored).takeWhile (inWin bs es)).filter (resMatch res) ++ extra, c⟩ ∧
      (((groupsItems post).map stored).all (inWin bs es) = false → extra = []) := by
  unfold rangeOneFile
  rw [hsplit, groupsBytes_append, List.append_assoc, List.drop_left, groupsBytes_eq_items post,
    splitLines_items (groupsItems post) hg t, splitLines_torn t ht]
  rw [rangeLoop_good bs es res prev (groupsItems post) _ [] hg (by simp; omega)]
  by_cases hall : ((groupsItems post).map stored).all (inWin bs es) = true
  · rw [if_pos hall, takeWhile_all _ _ hall]
    by_cases e : t = []
    · simp only [e, if_true, List.append_nil]
      exact ⟨[], true, by simp, by simp [rangeLoop], by simp [hall]⟩
    · simp only [e, if_false, rangeLoop]
      cases hp : parseLine (dropLastCR t) with
      | none =>
        exact ⟨[], true, by simp, by simp [rangeLoop], by simp [hall]⟩
      | some x =>
        simp only []
        by_cases hw : x.ts / 1000 < bs ∨ x.ts / 1000 > es
        · rw [if_pos hw]
          exact ⟨[], false, by simp, by simp, by simp [hall]⟩
        · rw [if_neg hw]
          by_cases hm : res.isEmpty = true ∨ res = x.resource
          · rw [if_pos hm]
            split
            · exact ⟨[x], false, by simp, by simp, by simp [hall]⟩
            · exact ⟨[x], true, by simp, by simp [rangeLoop], by simp [hall]⟩
          · rw [if_neg hm]
            split
            · exact ⟨[], false, by simp, by simp, by simp [hall]⟩
            · exact ⟨[], true, by simp, by simp [rangeLoop], by simp [hall]⟩
  · rw [if_neg hall]
    exact ⟨[], false, by simp, by simp, by simp⟩


theorem dropLast_cons_cons_mem {α} (a b : α) (r : List α) (x : α) (h : x ∈ (b :: r).dropLast) : x ∈ (a :: b :: r).dropLast := by
  simp only [List.dropLast_cons₂, List.mem_cons]; right; exact h

theorem rangeRest_torn (fs : FS) (B : List AFile) (hlogs : ∀ f ∈ B, fs.logs.get? f.id = some f.log)
    (htorn : ∀ f ∈ B.dropLast, f.tail = []) (htails : ∀ f ∈ B, 10 ∉ f.tail)
    (hgood : ∀ f ∈ B, ∀ it ∈ f.items, GoodItem it) (bs es : Nat) (res : List Char) (items : List MItem)
    (hcap : items.length + (B.flatMap AFile.items).length + 1 < MAX_ITEM_AMOUNT) :
    ∃ extra, extra.length ≤ 1 ∧ rangeRest fs bs es res (B.map (·.id)) items =
      some (items ++ (((B.flatMap AFile.items).map stored).takeWhile (inWin bs es)).filter (resMatch res) ++ extra) := by
  induction B generalizing items with
  | nil => exact ⟨[], by simp, by simp [rangeRest]⟩
  | cons f rest ih =>
    have hlen : ((f :: rest).flatMap AFile.items).length = (groupsItems f.groups).length + (rest.flatMap AFile.items).length := by
      simp only [List.flatMap_cons, List.length_append]; rfl
    simp only [List.map_cons, rangeRest, hlogs f (by simp)]
    cases rest with
    | nil =>
      obtain ⟨extra, c, he, hr, _⟩ := rangeOneFile_torn f.groups [] f.groups rfl f.tail (htails f (by simp)) bs es res items.length
        (hgood f (by simp)) (by simp only [List.flatMap_nil, List.length_nil, Nat.add_zero] at hlen; omega)
      have h0 : (groupsBytes []).length = 0 := rfl
      rw [h0] at hr
      refine ⟨extra, he, ?_⟩
      simp only [AFile.log, hr, List.map_nil, rangeRest, ite_self, List.flatMap_cons, List.flatMap_nil, List.append_nil, AFile.items,
        List.append_assoc]
    | cons g more =>
      have hlive : f.tail = [] := htorn f (by simp)
      have hlog : f.log = groupsBytes f.groups := by simp [AFile.log, hlive]
      have hr := rangeOneFile_live f.groups [] f.groups rfl bs es res items.length (hgood f (by simp)) (by omega)
      have h0 : (groupsBytes []).length = 0 := rfl
      rw [h0] at hr
      rw [hlog, hr]
      simp only []
      by_cases hall : ((groupsItems f.groups).map stored).all (inWin bs es) = true
      · simp only [hall, if_true]
        rw [takeWhile_all _ _ hall]
        have hle : (List.filter (resMatch res) (List.map stored (groupsItems f.groups))).length ≤ (groupsItems f.groups).length :=
          Nat.le_trans (List.length_filter_le _ _) (by simp)
        obtain ⟨extra, he, hrr⟩ := ih (fun x hx => hlogs x (by simp [hx])) (fun x hx => htorn x (dropLast_cons_cons_mem f g more x hx))
          (fun x hx => htails x (by simp [hx])) (fun x hx => hgood x (by simp [hx]))
          (items ++ List.filter (resMatch res) (List.map stored (groupsItems f.groups))) (by rw [List.length_append]; omega)
        refine ⟨extra, he, ?_⟩
        rw [hrr]
        simp only [List.flatMap_cons, List.map_append, AFile.items]
        rw [takeWhile_append_pos _ _ _ hall]
        simp [List.filter_append, List.append_assoc]
      · have hall' : ((groupsItems f.groups).map stored).all (inWin bs es) = false := by simpa using hall
        simp only [hall', Bool.false_eq_true, if_false]
        refine ⟨[], by simp, ?_⟩
        simp only [List.flatMap_cons, List.map_append, AFile.items, List.append_nil]
        rw [takeWhile_append_neg _ _ _ hall']


theorem dropLast_append_cons {α} (A : List α) (f : α) (B : List α) (hB : B ≠ []) : (A ++ f :: B).dropLast = A ++ f :: B.dropLast := by
  induction A with
  | nil =>
    cases B with
    | nil => exact absurd rfl hB
    | cons b r => simp [List.dropLast_cons₂]
  | cons a r ih =>
    cases h : r ++ f :: B with
    | nil => simp at h
    | cons x y => rw [List.cons_append, h, List.dropLast_cons₂, ← h, ih]; rfl


/-! ### the line-limited read on a file that ends in a torn line -/

/-- the loop over the complete lines followed by at most one torn line: what the loop over the items yields, then at most one
more item (the torn line misread) -/
theorem linesLoop_torn (n prev : Nat) (its : List MItem) (t : Bytes) (lastSec : Nat) (acc : List MItem) (hg : ∀ it ∈ its, GoodItem it) :
    ∃ extra c, extra.length ≤ 1 ∧
      linesLoop n prev (its.map lineOf ++ (if t = [] then [] else [t])) lastSec acc =
        ⟨(absLines n prev (its.map stored) lastSec acc).items ++ extra, c⟩ := by
  induction its generalizing lastSec acc with
  | nil =>
    by_cases e : t = []
    · simp only [e, if_true, List.map_nil, List.append_nil, linesLoop, absLines]
      exact ⟨[], decide (prev + acc.length < n), by simp, by simp⟩
    · simp only [e, if_false, List.map_nil, List.nil_append, linesLoop, absLines]
      cases hp : parseLine (dropAllCR t) with
      | none => exact ⟨[], decide (prev + acc.length < n), by simp, by simp⟩
      | some x =>
        simp only []
        by_cases hs : prev + acc.length ≥ n ∧ x.ts / 1000 ≠ lastSec
        · rw [if_pos hs]; exact ⟨[], false, by simp, by simp⟩
        · rw [if_neg hs]; exact ⟨[x], decide (prev + (x :: acc).length < n), by simp, by simp [linesLoop]⟩
  | cons it rest ih =>
    have hgi := hg it (by simp)
    have hp : parseLine (dropAllCR (lineOf it)) = some (stored it) := by
      rw [dropAllCR_id _ (lineOf_no_cr it hgi), parseLine_lineOf it hgi]
    simp only [List.map_cons, List.cons_append, linesLoop, absLines, hp]
    by_cases hc : prev + acc.length ≥ n ∧ (stored it).ts / 1000 ≠ lastSec
    · rw [if_pos hc, if_pos hc]; exact ⟨[], false, by simp, by simp⟩
    · rw [if_neg hc, if_neg hc]; exact ih _ _ (fun x hx => hg x (by simp [hx]))

theorem linesOneFile_torn (gs pre post : List Group) (hsplit : gs = pre ++ post) (t : Bytes) (ht : 10 ∉ t) (n lastSec prev : Nat)
    (hg : ∀ it ∈ groupsItems post, GoodItem it) :
    ∃ extra c, extra.length ≤ 1 ∧
      linesOneFile (groupsBytes gs ++ t) (groupsBytes pre).length n lastSec prev =
        ⟨(absLines n prev ((groupsItems post).map stored) lastSec []).items ++ extra, c⟩ := by
  unfold linesOneFile
  rw [hsplit, groupsBytes_append, List.append_assoc, List.drop_left, groupsBytes_eq_items post,
    splitLines_items (groupsItems post) hg t, splitLines_torn t ht]
  exact linesLoop_torn n prev (groupsItems post) t lastSec [] hg

/-- the continuation over the following files when the last of them ends in a torn line -/
theorem linesRest_torn (fs : FS) (n : Nat) (hn : 1 ≤ n) (B : List AFile) (hlogs : ∀ f ∈ B, fs.logs.get? f.id = some f.log)
    (htorn : ∀ f ∈ B.dropLast, f.tail = []) (htails : ∀ f ∈ B, 10 ∉ f.tail)
    (hgood : ∀ f ∈ B, ∀ it ∈ f.items, GoodItem it) (P : List MItem) (hw : Whole n P) :
    ∃ Q extra, extra.length ≤ 1 ∧ linesRest fs n (B.map (·.id)) P = some (P ++ Q ++ extra) ∧
      Q <+: (B.flatMap AFile.items).map stored ∧ Whole n (P ++ Q) ∧
      ((P ++ Q).length ≥ n ∨ Q = (B.flatMap AFile.items).map stored) := by
  induction B generalizing P with
  | nil => exact ⟨[], [], by simp, by simp [linesRest], by simp, by simpa using hw, Or.inr (by simp)⟩
  | cons f rest ih =>
    simp only [List.map_cons, linesRest]
    by_cases hfull : P.length ≥ n
    · rw [if_pos hfull]
      exact ⟨[], [], by simp, by simp, List.nil_prefix, by simpa using hw, Or.inl (by simpa using hfull)⟩
    · rw [if_neg hfull]
      simp only [hlogs f (by simp)]
      obtain ⟨Q1, q1, q2, q3, q4, q5⟩ := absLines_spec n P.length hn ((groupsItems f.groups).map stored) P rfl (latestSecond P) []
        (by simpa using latestSecond_spec P) (by simpa using hw)
      simp only [List.reverse_nil, List.nil_append, List.append_nil] at q1 q3 q4 q5
      have h0 : (groupsBytes []).length = 0 := rfl
      by_cases hne : rest = []
      · subst hne
        obtain ⟨extra, c, he, hr⟩ := linesOneFile_torn f.groups [] f.groups rfl f.tail (htails f (by simp)) n (latestSecond P) P.length
          (hgood f (by simp))
        rw [h0] at hr
        refine ⟨Q1, extra, he, ?_, ?_, q3, ?_⟩
        · simp only [AFile.log, hr, q1, List.map_nil, linesRest, ite_self, List.append_assoc]
        · simpa [AFile.items] using q2
        · by_cases hc : (absLines n P.length ((groupsItems f.groups).map stored) (latestSecond P) []).cont = true
          · right; rw [(q4 hc).1]; simp [AFile.items]
          · left; exact q5 (by simpa using hc)
      · have hdl : (f :: rest).dropLast = f :: rest.dropLast := List.dropLast_cons_of_ne_nil hne
        have hlive : f.tail = [] := htorn f (by rw [hdl]; simp)
        have hlog : f.log = groupsBytes f.groups := by simp [AFile.log, hlive]
        have hr := linesOneFile_live f.groups [] f.groups rfl n (latestSecond P) P.length (hgood f (by simp))
        rw [h0] at hr
        rw [hlog, hr]
        by_cases hc : (absLines n P.length ((groupsItems f.groups).map stored) (latestSecond P) []).cont = true
        · rw [if_pos hc, q1]
          obtain ⟨e, _⟩ := q4 hc
          obtain ⟨Q2, extra, he, r1, r2, r3, r4⟩ := ih (fun x hx => hlogs x (by simp [hx]))
            (fun x hx => htorn x (by rw [hdl]; simp [hx])) (fun x hx => htails x (by simp [hx]))
            (fun x hx => hgood x (by simp [hx])) (P ++ Q1) q3
          refine ⟨Q1 ++ Q2, extra, he, by rw [r1]; simp [List.append_assoc], ?_, by simpa [List.append_assoc] using r3, ?_⟩
          · rw [e]; simp only [List.flatMap_cons, List.map_append, AFile.items]
            exact (List.prefix_append_right_inj _).mpr r2
          · rcases r4 with h | h
            · left; simpa [List.append_assoc] using h
            · right; rw [e, h]; simp [AFile.items]
        · rw [if_neg hc, q1]
          have hc' : (absLines n P.length ((groupsItems f.groups).map stored) (latestSecond P) []).cont = false := by simpa using hc
          refine ⟨Q1, [], by simp, by simp, ?_, q3, Or.inl (q5 hc')⟩
          simp only [List.flatMap_cons, List.map_append, AFile.items]
          exact List.IsPrefix.trans q2 (List.prefix_append _ _)


/-! ### crash prefixes inside a `write` -/

theorem crashPrefix_append (X Y : List Act) (k j : Nat) :
    crashPrefix (X ++ Y) k j = if k < X.length then crashPrefix X k j else X ++ crashPrefix Y (k - X.length) j := by
  unfold crashPrefix
  by_cases h : k < X.length
  · rw [if_pos h, List.take_append_of_le_length (by omega), List.getElem?_append_left h]
  · rw [if_neg h, List.take_append, List.getElem?_append_right (by omega)]
    have : X.take k = X := List.take_of_length_le (by omega)
    rw [this, List.append_assoc]

/-- a directory given by its two listings -/
theorem rep_of_dirs (fs : FS) (al : List AFile) (hl : fs.logs = logDir al) (hs : IdsSorted (al.map (·.id)))
    (hi : ∀ f ∈ al, fs.idxs.get? f.id = some f.idx ∨ (fs.idxs.get? f.id = none ∧ f.groups = [])) : Rep fs al := by
  refine ⟨?_, ?_, hi⟩
  · unfold FS.listLogs
    rw [hl, logDir, List.map_map]
    exact foldr_insertId_sorted _ hs
  · intro f hf
    rw [hl, logDir]
    exact get?_map al (·.id) (·.log) hs f hf


/-- the same file with whatever torn bytes it ends in -/
def AFile.withTails (f : AFile) (t it : Bytes) : AFile := { f with tail := t, idxTail := it }

/-- a crash-shaped state: `init ++ [last]` is a well-formed live log, and the directory holds it with `last` ending in the torn
bytes `t` (log) and `it` (index) -/
structure CrashShape (L : Nat) (init : List AFile) (last : AFile) (t it : Bytes) (B N : Nat) : Prop where
  aok : AOk L (init ++ [last]) B N
  tail : 10 ∉ t
  idxTail : it.length < 16

theorem flatMap_withTails {β} (init : List AFile) (last : AFile) (t it : Bytes) (φ : List Group → List β) :
    (init ++ [last.withTails t it]).flatMap (fun f => φ f.groups) = (init ++ [last]).flatMap (fun f => φ f.groups) := by
  simp [AFile.withTails]

theorem dropLast_snoc {α} (l : List α) (x : α) : (l ++ [x]).dropLast = l := by simp

/-- a crash-shaped state satisfies what the crash search theorem asks for -/
theorem CrashShape.wf {L : Nat} {init : List AFile} {last : AFile} {t it : Bytes} {B N : Nat} (h : CrashShape L init last t it B N)
    (hB : B < 18446744073709551616) (hN : N + 1 < MAX_ITEM_AMOUNT) (hL : L < 18446744073709551616) :
    WF (init ++ [last.withTails t it]) ∧ ((init ++ [last.withTails t it]).flatMap AFile.items).length + 1 < MAX_ITEM_AMOUNT ∧
      (∀ f ∈ (init ++ [last.withTails t it]).dropLast, f.tail = []) ∧
      (init ++ [last.withTails t it]).flatMap AFile.items = (init ++ [last]).flatMap AFile.items := by
  have hmem : ∀ f ∈ init ++ [last.withTails t it], (f ∈ init ∧ f ∈ init ++ [last]) ∨ f = last.withTails t it := by
    intro f hf
    rcases List.mem_append.mp hf with h1 | h1
    · exact Or.inl ⟨h1, by simp [h1]⟩
    · exact Or.inr (by simpa using h1)
  have hlastm : last ∈ init ++ [last] := by simp
  have hitems : (init ++ [last.withTails t it]).flatMap AFile.items = (init ++ [last]).flatMap AFile.items :=
    flatMap_withTails init last t it groupsItems
  refine ⟨⟨?_, ?_, ?_, ?_, ?_, ?_⟩, ?_, ?_, hitems⟩
  · have := flatMap_withTails init last t it (fun gs => gs.map (·.1))
    rw [this]; exact h.aok.sorted
  · intro f hf g hg
    rcases hmem f hf with ⟨_, h1⟩ | h1
    · exact h.aok.itemSecs f h1 g hg
    · subst h1; exact h.aok.itemSecs last hlastm g hg
  · intro f hf g hg
    rcases hmem f hf with ⟨_, h1⟩ | h1
    · exact h.aok.good f h1 g hg
    · subst h1; exact h.aok.good last hlastm g hg
  · intro f hf
    rcases hmem f hf with ⟨_, h1⟩ | h1
    · exact ⟨fun g hg => Nat.lt_of_le_of_lt (h.aok.secsLe f h1 g hg) hL, Nat.lt_of_le_of_lt (h.aok.bytes f h1) hB⟩
    · subst h1
      exact ⟨fun g hg => Nat.lt_of_le_of_lt (h.aok.secsLe last hlastm g hg) hL, Nat.lt_of_le_of_lt (h.aok.bytes last hlastm) hB⟩
  · intro f hf
    rcases hmem f hf with ⟨_, h1⟩ | h1
    · have := h.aok.live f h1; rw [this.1, this.2]; simp
    · subst h1; exact ⟨h.tail, h.idxTail⟩
  · rw [hitems]; exact Nat.lt_of_le_of_lt h.aok.items (by omega)
  · rw [hitems]; have := h.aok.items; omega
  · rw [dropLast_snoc]
    intro f hf
    exact (h.aok.live f (by simp [hf])).1


/-- bytes appended to the last log file are its torn tail -/
theorem repL_logTail (fs : FS) (init : List AFile) (last : AFile) (h : RepL fs (init ++ [last])) (hs : IdsSorted ((init ++ [last]).map (·.id)))
    (t : Bytes) : RepL (fs.applyAll [Act.append false last.id t]) (init ++ [last.withTails (last.tail ++ t) last.idxTail]) := by
  constructor
  · simp only [FS.applyAll, List.foldl_cons, List.foldl_nil, FS.apply, h.logs, logDir_snoc]
    rw [append_last init last (·.id) (·.log) hs]
    simp [logDir, AFile.log, AFile.withTails, List.append_assoc]
  · simp only [FS.applyAll, List.foldl_cons, List.foldl_nil, FS.apply, h.idxs]
    simp [idxDir, AFile.idx, AFile.withTails]

/-- bytes appended to the last index file are its torn entry -/
theorem repL_idxTail (fs : FS) (init : List AFile) (last : AFile) (h : RepL fs (init ++ [last])) (hs : IdsSorted ((init ++ [last]).map (·.id)))
    (t : Bytes) : RepL (fs.applyAll [Act.append true last.id t]) (init ++ [last.withTails last.tail (last.idxTail ++ t)]) := by
  constructor
  · simp only [FS.applyAll, List.foldl_cons, List.foldl_nil, FS.apply, h.logs]
    simp [logDir, AFile.log, AFile.withTails]
  · simp only [FS.applyAll, List.foldl_cons, List.foldl_nil, FS.apply, h.idxs, idxDir_snoc]
    rw [append_last init last (·.id) (·.idx) hs]
    simp [idxDir, AFile.idx, AFile.withTails, List.append_assoc]

theorem withTails_self (f : AFile) : f.withTails f.tail f.idxTail = f := rfl

/-- any prefix of the two index appends leaves a torn entry, or is the whole entry -/
theorem entry_prefix_state (fs : FS) (init : List AFile) (last : AFile) (hrep : RepL fs (init ++ [last]))
    (hids : IdsSorted ((init ++ [last]).map (·.id))) (hlive : last.tail = [] ∧ last.idxTail = []) (sec k j : Nat) :
    (∃ it : Bytes, it.length < 16 ∧
      RepL (fs.applyAll (crashPrefix [Act.append true last.id (be64 sec), Act.append true last.id (be64 last.log.length)] k j))
        (init ++ [last.withTails [] it])) ∨
    fs.applyAll (crashPrefix [Act.append true last.id (be64 sec), Act.append true last.id (be64 last.log.length)] k j) =
      fs.applyAll [Act.append true last.id (be64 sec), Act.append true last.id (be64 last.log.length)] := by
  have hself : init ++ [last] = init ++ [last.withTails [] []] := by
    have : last.withTails [] [] = last := by
      cases last; simp only [AFile.withTails] at hlive ⊢; simp_all
    rw [this]
  match k with
  | 0 =>
    left
    by_cases hj : j = 0
    · refine ⟨[], by simp, ?_⟩
      simp only [crashPrefix, List.take_zero, List.nil_append, List.getElem?_cons_zero, Act.cut, hj, if_true, FS.applyAll, List.foldl_nil]
      rw [← hself]; exact hrep
    · refine ⟨(be64 sec).take j, by simp [be64_length]; omega, ?_⟩
      simp only [crashPrefix, List.take_zero, List.nil_append, List.getElem?_cons_zero, Act.cut, hj, if_false]
      have := repL_idxTail fs init last hrep hids ((be64 sec).take j)
      rw [hlive.1, hlive.2, List.nil_append] at this
      exact this
  | 1 =>
    by_cases hj : j < 8
    · left
      refine ⟨be64 sec ++ (be64 last.log.length).take j, by simp [be64_length]; omega, ?_⟩
      have h1 := repL_idxTail fs init last hrep hids (be64 sec)
      rw [hlive.1, hlive.2, List.nil_append] at h1
      by_cases hj0 : j = 0
      · simp only [crashPrefix, List.take_succ_cons, List.take_zero, List.getElem?_cons_succ, List.getElem?_cons_zero, Act.cut, hj0, if_true,
          List.append_nil, List.take_zero]
        exact h1
      · simp only [crashPrefix, List.take_succ_cons, List.take_zero, List.getElem?_cons_succ, List.getElem?_cons_zero, Act.cut, hj0, if_false]
        have hids1 : IdsSorted ((init ++ [last.withTails [] (be64 sec)]).map (·.id)) := by simpa [AFile.withTails] using hids
        have h2 := repL_idxTail _ init (last.withTails [] (be64 sec)) h1 hids1 ((be64 last.log.length).take j)
        simp only [AFile.withTails] at h2 ⊢
        have e : fs.applyAll ([Act.append true last.id (be64 sec)] ++ [Act.append true last.id (List.take j (be64 last.log.length))]) =
            (fs.applyAll [Act.append true last.id (be64 sec)]).applyAll [Act.append true last.id (List.take j (be64 last.log.length))] :=
          applyAll_append _ _ _
        rw [e]; exact h2
    · right
      have : (be64 last.log.length).take j = be64 last.log.length := List.take_of_length_le (by simp [be64_length]; omega)
      have hj0 : j ≠ 0 := by omega
      simp only [crashPrefix, List.take_succ_cons, List.take_zero, List.getElem?_cons_succ, List.getElem?_cons_zero, Act.cut, hj0, if_false, this,
        List.cons_append, List.nil_append]
  | k + 2 =>
    right
    simp [crashPrefix]


theorem not_mem_take {α} [DecidableEq α] (x : α) (l : List α) (n : Nat) (h : x ∉ l) : x ∉ l.take n :=
  fun hm => h (List.mem_of_mem_take hm)

/-- any prefix of the line appends leaves some complete lines and a torn one -/
theorem lines_prefix_state (fs : FS) (init : List AFile) (last : AFile) (gi : List Group) (gl : Group) (hrep : RepL fs (init ++ [last]))
    (hids : IdsSorted ((init ++ [last]).map (·.id))) (hg : last.groups = gi ++ [gl]) (hlive : last.tail = [])
    (items : List MItem) (hgood : ∀ it ∈ items, GoodItem it) (k j : Nat) :
    ∃ m t, m ≤ items.length ∧ 10 ∉ t ∧
      RepL (fs.applyAll (crashPrefix (items.map (fun it => Act.append false last.id (lineBytes it))) k j))
        (init ++ [({ last with groups := gi ++ [(gl.1, gl.2 ++ items.take m)] } : AFile).withTails t last.idxTail]) := by
  -- the state after `m` complete lines
  have hstate : ∀ m, RepL (fs.applyAll ((items.take m).map (fun it => Act.append false last.id (lineBytes it))))
      (init ++ [({ last with groups := gi ++ [(gl.1, gl.2 ++ items.take m)] } : AFile)]) :=
    fun m => repL_lines fs init last gi gl hrep hids hg hlive (items.take m)
  have hwt : ∀ m, (({ last with groups := gi ++ [(gl.1, gl.2 ++ items.take m)] } : AFile).withTails [] last.idxTail) =
      ({ last with groups := gi ++ [(gl.1, gl.2 ++ items.take m)] } : AFile) := by
    intro m; simp [AFile.withTails, hlive]
  unfold crashPrefix
  rw [← List.map_take]
  by_cases hk : k < items.length
  · have hget : (items.map (fun it => Act.append false last.id (lineBytes it)))[k]? = some (Act.append false last.id (lineBytes items[k])) := by
      simp [hk]
    rw [hget]
    simp only [Act.cut]
    by_cases hj0 : j = 0
    · simp only [hj0, if_true, List.append_nil]
      exact ⟨k, [], by omega, by simp, by rw [hwt]; exact hstate k⟩
    · simp only [hj0, if_false]
      by_cases hjl : j < (lineBytes items[k]).length
      · -- a torn line
        refine ⟨k, (lineBytes items[k]).take j, by omega, ?_, ?_⟩
        · have hpre : (lineBytes items[k]).take j = (lineOf items[k]).take j := by
            rw [lineBytes_eq, List.take_append_of_le_length]
            rw [lineBytes_eq, List.length_append, List.length_singleton] at hjl; omega
          rw [hpre]
          exact not_mem_take _ _ _ (lineOf_no_nl _ (hgood _ (List.getElem_mem hk)))
        · rw [applyAll_append]
          have hids' : IdsSorted ((init ++ [({ last with groups := gi ++ [(gl.1, gl.2 ++ items.take k)] } : AFile)]).map (·.id)) := by
            simpa using hids
          have := repL_logTail _ init _ (hstate k) hids' ((lineBytes items[k]).take j)
          simpa [AFile.withTails, hlive] using this
      · -- the whole line
        have hfull : (lineBytes items[k]).take j = lineBytes items[k] := List.take_of_length_le (by omega)
        rw [hfull]
        refine ⟨k + 1, [], by omega, by simp, ?_⟩
        rw [hwt]
        have e : (items.take k).map (fun it => Act.append false last.id (lineBytes it)) ++ [Act.append false last.id (lineBytes items[k])] =
            (items.take (k + 1)).map (fun it => Act.append false last.id (lineBytes it)) := by
          rw [List.take_succ, List.map_append]; simp [hk]
        rw [e]; exact hstate (k + 1)
  · have hnone : (items.map (fun it => Act.append false last.id (lineBytes it)))[k]? = none := by
      simp; omega
    rw [hnone]
    simp only [List.append_nil]
    refine ⟨items.length, [], Nat.le_refl _, by simp, ?_⟩
    rw [hwt]
    have : items.take k = items.take items.length := by
      rw [List.take_of_length_le (by omega), List.take_of_length_le (Nat.le_refl _)]
    rw [this]; exact hstate _


def rmPair (f : FileId) : List Act := [Act.remove false f, Act.remove true f]

/-- a prefix of the removals of a roll-over: the log files go first, each followed by its index file -/
theorem applyAll_removes_take (fs : FS) (ids : List FileId) (t : Nat) :
    fs.applyAll ((ids.flatMap rmPair).take t) =
      { logs := (ids.take ((t + 1) / 2)).foldl Dir.erase fs.logs, idxs := (ids.take (t / 2)).foldl Dir.erase fs.idxs } := by
  induction ids generalizing fs t with
  | nil => simp [FS.applyAll]
  | cons a r ih =>
    match t with
    | 0 => simp [FS.applyAll]
    | 1 => simp [FS.applyAll, rmPair, FS.apply]
    | t + 2 =>
      have e : ((a :: r).flatMap rmPair).take (t + 2) = [Act.remove false a, Act.remove true a] ++ (r.flatMap rmPair).take t := by
        simp [rmPair]
      rw [e, applyAll_append, ih]
      have h1 : (t + 2 + 1) / 2 = (t + 1) / 2 + 1 := by omega
      have h2 : (t + 2) / 2 = t / 2 + 1 := by omega
      simp [FS.applyAll, FS.apply, h1, h2]

theorem AOk.drop {L B N : Nat} {al : List AFile} (h : AOk L al B N) (k : Nat) : AOk L (al.drop k) B N := by
  have hm : ∀ f ∈ al.drop k, f ∈ al := fun f hf => List.mem_of_mem_drop hf
  refine ⟨fun f hf => h.live f (hm f hf), List.Pairwise.sublist (flatMap_drop_sublist al k _) h.sorted,
    fun f hf => h.secsLe f (hm f hf), fun f hf => h.itemSecs f (hm f hf), fun f hf => h.good f (hm f hf),
    fun f hf => h.bytes f (hm f hf), Nat.le_trans (flatMap_drop_sublist al k _).length_le h.items⟩

/-- the state after any prefix of a roll-over's actions: some of the oldest files are gone (the index file of the last removed
one possibly still there), or the new log file exists without its index, or the roll-over is complete -/
theorem roll_prefix_state (fs : FS) (al : List AFile) (h : RepL fs al) (hs : IdsSorted (al.map (·.id))) (maxFiles tsMs : Nat)
    (hd : ∀ f ∈ al, f.id.day ≤ dayOfSec (tsMs / 1000)) (k j : Nat) :
    ∃ al' q, Rep (fs.applyAll (crashPrefix (rollActs fs maxFiles tsMs).2 k j)) al' ∧
      (al' = al.drop q ∨ al' = al.drop q ++ [AFile.new (rollActs fs maxFiles tsMs).1]) := by
  obtain ⟨hday, hgt⟩ := nextFileId_gt fs al h hs (dayOfSec (tsMs / 1000)) hd
  have hroll := roll_spec fs al h hs maxFiles tsMs hd
  generalize hdc : dropCount al.length maxFiles = dc at hroll
  have hact : (rollActs fs maxFiles tsMs) =
      (nextFileId fs (dayOfSec (tsMs / 1000)),
        ((al.take dc).map (·.id)).flatMap rmPair ++
          [Act.create false (nextFileId fs (dayOfSec (tsMs / 1000))), Act.create true (nextFileId fs (dayOfSec (tsMs / 1000)))]) := by
    unfold rollActs
    rw [removeDeprecated_eq fs al h hs maxFiles, hdc]; rfl
  rw [hact] at hroll ⊢
  simp only [] at hroll ⊢
  generalize nextFileId fs (dayOfSec (tsMs / 1000)) = nf at *
  generalize hrm : ((al.take dc).map (·.id)).flatMap rmPair = rm at *
  -- no action of a roll-over can be cut: the prefix is `take k`
  have hcut : crashPrefix (rm ++ [Act.create false nf, Act.create true nf]) k j = (rm ++ [Act.create false nf, Act.create true nf]).take k := by
    unfold crashPrefix
    cases hk : (rm ++ [Act.create false nf, Act.create true nf])[k]? with
    | none => simp
    | some a =>
      have hmem := List.mem_of_getElem? hk
      rcases List.mem_append.mp hmem with h1 | h1
      · rw [← hrm] at h1
        obtain ⟨f, _, hf⟩ := List.mem_flatMap.mp h1
        simp only [rmPair, List.mem_cons, List.not_mem_nil, or_false] at hf
        rcases hf with rfl | rfl <;> simp [Act.cut]
      · simp only [List.mem_cons, List.not_mem_nil, or_false] at h1
        rcases h1 with rfl | rfl <;> simp [Act.cut]
  rw [hcut]
  by_cases hk1 : k ≤ rm.length
  · -- inside the removals
    rw [List.take_append_of_le_length hk1, ← hrm, applyAll_removes_take]
    have hq : ∀ q, ((al.take dc).map (·.id)).take q = (al.take (min q dc)).map (·.id) := by
      intro q; rw [← List.map_take, List.take_take]
    rw [hq, hq, h.logs, h.idxs, logDir, idxDir, erase_take al (·.id) (·.log) hs, erase_take al (·.id) (·.idx) hs]
    refine ⟨al.drop (min ((k + 1) / 2) dc), min ((k + 1) / 2) dc, ?_, Or.inl rfl⟩
    apply rep_of_dirs
    · rfl
    · rw [List.map_drop]; exact sorted_drop _ hs _
    · intro f hf
      left
      have hsub : f ∈ al.drop (min (k / 2) dc) := by
        have : min (k / 2) dc ≤ min ((k + 1) / 2) dc := by omega
        obtain ⟨d, hd⟩ := Nat.exists_eq_add_of_le this
        rw [hd, ← List.drop_drop] at hf
        exact List.mem_of_mem_drop hf
      show Dir.get? (List.map (fun f => (f.id, f.idx)) (al.drop (min (k / 2) dc))) f.id = some f.idx
      exact get?_map _ (·.id) (·.idx) (by rw [List.map_drop]; exact sorted_drop _ hs _) f hsub
  · by_cases hk2 : k = rm.length + 1
    · -- the new log file exists, its index file does not
      have e : (rm ++ [Act.create false nf, Act.create true nf]).take k = rm ++ [Act.create false nf] := by
        rw [hk2, List.take_append, List.take_of_length_le (Nat.le_succ _)]; simp
      rw [e, applyAll_append, ← hrm]
      have := applyAll_removes fs ((al.take dc).map (·.id))
      rw [show (List.flatMap rmPair (List.map (fun x => x.id) (List.take dc al))) = (List.flatMap (fun f => [Act.remove false f, Act.remove true f]) (List.map (fun x => x.id) (List.take dc al))) from rfl,
        this, h.logs, h.idxs, logDir, idxDir, erase_take al (·.id) (·.log) hs, erase_take al (·.id) (·.idx) hs]
      have hnotmem : nf ∉ (al.drop dc).map (·.id) := by
        intro hm
        obtain ⟨f, hf, e⟩ := List.mem_map.mp hm
        have := hgt f.id (List.mem_map.mpr ⟨f, List.mem_of_mem_drop hf, rfl⟩)
        rw [e, FileId.lt_irrefl] at this
        exact absurd this (by simp)
      refine ⟨al.drop dc ++ [AFile.new nf], dc, ?_, Or.inr rfl⟩
      apply rep_of_dirs
      · simp only [FS.applyAll, List.foldl_cons, List.foldl_nil, FS.apply, Dir.create]
        rw [erase_not_mem _ _ _ _ hnotmem]
        simp [logDir, AFile.new, AFile.log, groupsBytes]
      · exact hroll.2.1
      · intro f hf
        simp only [FS.applyAll, List.foldl_cons, List.foldl_nil, FS.apply]
        rcases List.mem_append.mp hf with h1 | h1
        · left
          exact get?_map _ (·.id) (·.idx) (by rw [List.map_drop]; exact sorted_drop _ hs _) f h1
        · right
          simp only [List.mem_singleton] at h1; subst h1
          exact ⟨get?_none_of_not_mem (al.drop dc) (fun (f : AFile) => f.id) (fun (f : AFile) => f.idx) nf hnotmem, rfl⟩
    · -- the whole roll-over
      have e : (rm ++ [Act.create false nf, Act.create true nf]).take k = rm ++ [Act.create false nf, Act.create true nf] := by
        apply List.take_of_length_le; simp; omega
      rw [e]
      refine ⟨al.drop dc ++ [AFile.new nf], dc, ?_, Or.inr rfl⟩
      have hrepL := hroll.1
      apply rep_of_dirs _ _ hrepL.logs hroll.2.1
      intro f hf
      left
      rw [hrepL.idxs, idxDir]
      exact get?_map _ (·.id) (·.idx) hroll.2.1 f hf


/-- the directory `fs'` is a crash-shaped, well-formed one holding exactly the items `held` in complete lines -/
def CrashOK (fs' : FS) (held : List MItem) : Prop :=
  ∃ al', Rep fs' al' ∧ WF al' ∧ (al'.flatMap AFile.items).length + 1 < MAX_ITEM_AMOUNT ∧ (∀ f ∈ al'.dropLast, f.tail = []) ∧
    al'.flatMap AFile.items = held

theorem rep_of_repL (fs : FS) (al : List AFile) (h : RepL fs al) (hs : IdsSorted (al.map (·.id))) : Rep fs al := by
  apply rep_of_dirs fs al h.logs hs
  intro f hf
  left
  rw [h.idxs, idxDir]
  exact get?_map al (·.id) (·.idx) hs f hf

/-- a live well-formed log is in particular crash-shaped -/
theorem crashOK_of_aok (fs' : FS) (al' : List AFile) (L B N : Nat) (hrep : Rep fs' al') (h : AOk L al' B N)
    (hB : B < 18446744073709551616) (hN : N + 1 < MAX_ITEM_AMOUNT) (hL : L < 18446744073709551616) :
    CrashOK fs' (al'.flatMap AFile.items) := by
  refine ⟨al', hrep, ⟨h.sorted, h.itemSecs, h.good, ?_, ?_, ?_⟩, ?_, ?_, rfl⟩
  · intro f hf
    exact ⟨fun g hg => Nat.lt_of_le_of_lt (h.secsLe f hf g hg) hL, Nat.lt_of_le_of_lt (h.bytes f hf) hB⟩
  · intro f hf
    have := h.live f hf
    rw [this.1, this.2]; simp
  · have := h.items; omega
  · have := h.items; omega
  · intro f hf
    exact (h.live f (List.dropLast_subset _ hf)).1

theorem crashOK_of_shape (fs' : FS) (init : List AFile) (last : AFile) (t it : Bytes) (L B N : Nat)
    (hrepL : RepL fs' (init ++ [last.withTails t it])) (hs : IdsSorted ((init ++ [last]).map (·.id)))
    (h : CrashShape L init last t it B N)
    (hB : B < 18446744073709551616) (hN : N + 1 < MAX_ITEM_AMOUNT) (hL : L < 18446744073709551616) :
    CrashOK fs' ((init ++ [last]).flatMap AFile.items) := by
  obtain ⟨h1, h2, h3, h4⟩ := h.wf hB hN hL
  refine ⟨init ++ [last.withTails t it], rep_of_repL _ _ hrepL (by simpa [AFile.withTails] using hs), h1, h2, h3, h4⟩


theorem crashPrefix_zero_zero (acts : List Act) : crashPrefix acts 0 0 = [] := by
  unfold crashPrefix
  cases acts with
  | nil => rfl
  | cons a r => cases a <;> simp [Act.cut]

theorem crashPrefix_nil (k j : Nat) : crashPrefix [] k j = [] := by simp [crashPrefix]

theorem AOk.linesTake {L B N : Nat} {init : List AFile} {last : AFile} {gi : List Group} {gl : Group} (h : AOk L (init ++ [last]) B N)
    (hg : last.groups = gi ++ [gl]) (items : List MItem) (hgood : ∀ it ∈ items, GoodItem it) (hsec : ∀ it ∈ items, secOf it = gl.1) (m : Nat) :
    AOk L (init ++ [{ last with groups := gi ++ [(gl.1, gl.2 ++ items.take m)] }]) (B + (items.flatMap lineBytes).length) (N + items.length) := by
  have := h.lines hg (items.take m) (fun it hit => hgood it (List.mem_of_mem_take hit)) (fun it hit => hsec it (List.mem_of_mem_take hit))
  refine this.mono (Nat.le_refl _) ?_ ?_
  · have hs : ((items.take m).flatMap lineBytes).length ≤ (items.flatMap lineBytes).length := by
      conv => rhs; rw [← List.take_append_drop m items, List.flatMap_append, List.length_append]
      omega
    omega
  · have : (items.take m).length ≤ items.length := by simp [List.length_take]; omega
    omega

/-- **a crash anywhere inside the second half of a `write`** (index entry, lines, roll-over by size) **leaves a crash-shaped,
well-formed directory** that holds what the log held before plus the first `m` of the new items, minus `d` items of removed files -/
theorem crash_in_writeTail (w : Writer) (fs1 : FS) (init1 : List AFile) (last1 : AFile) (B N ts : Nat) (items : List MItem)
    (hrep : RepL fs1 (init1 ++ [last1])) (hids : IdsSorted ((init1 ++ [last1]).map (·.id)))
    (hdays : ∀ f ∈ init1 ++ [last1], f.id.day ≤ dayOfSec (ts / 1000))
    (haok : AOk w.latest (init1 ++ [last1]) B N) (hsec : w.latest ≤ ts / 1000)
    (hlast : ts / 1000 = w.latest → ∀ gi gl, last1.groups = gi ++ [gl] → gl.1 = w.latest)
    (hgood : ∀ it ∈ items, GoodItem { it with ts := ts })
    (hB : B + ((stamp ts items).flatMap lineBytes).length < 18446744073709551616) (hN : N + items.length + 1 < MAX_ITEM_AMOUNT)
    (hL : ts / 1000 < 18446744073709551616) (k j : Nat) :
    ∃ d m, CrashOK (fs1.applyAll (crashPrefix (w.writeTail fs1 last1.id ts items).2 k j))
      (((init1 ++ [last1]).flatMap AFile.items ++ (stamp ts items).take m).drop d) := by
  have hlive := haok.live last1 (by simp)
  have hpos : ((fs1.logs.get? last1.id).getD []).length = last1.log.length := by
    rw [get?_last_log fs1 init1 last1 hrep hids]; rfl
  obtain ⟨items', hitems'⟩ : ∃ x, x = stamp ts items := ⟨_, rfl⟩
  have hlen' : items'.length = items.length := by rw [hitems']; simp [stamp]
  have hgood' : ∀ it ∈ items', GoodItem it := by
    intro it hit
    rw [hitems'] at hit
    obtain ⟨x, hx, rfl⟩ := List.mem_map.mp hit
    exact hgood x hx
  rw [← hitems'] at hB ⊢
  have hBL : B < 18446744073709551616 := by omega
  have hNL : N + 1 < MAX_ITEM_AMOUNT := by omega
  have hLw : w.latest < 18446744073709551616 := by omega
  unfold Writer.writeTail
  simp only [hpos]
  have hacts3 : items.map (fun it => Act.append false last1.id (lineBytes { it with ts := ts })) =
      items'.map (fun it => Act.append false last1.id (lineBytes it)) := by
    rw [hitems']; simp [stamp, List.map_map]
  rw [hacts3]
  generalize hacts2 : (if ts / 1000 > w.latest ∨ last1.log.length = 0 then
      [Act.append true last1.id (be64 (ts / 1000)), Act.append true last1.id (be64 last1.log.length)] else []) = acts2
  -- the state after the entry
  obtain ⟨last2, gi, gl, hid2, hit2, hg2, hgl, hrep2, haok2⟩ :
      ∃ last2 : AFile, ∃ gi gl, last2.id = last1.id ∧ last2.items = last1.items ∧ last2.groups = gi ++ [gl] ∧ gl.1 = ts / 1000 ∧
        RepL (fs1.applyAll acts2) (init1 ++ [last2]) ∧ AOk (ts / 1000) (init1 ++ [last2]) B N := by
    rw [← hacts2]
    by_cases hc : ts / 1000 > w.latest ∨ last1.log.length = 0
    · simp only [hc, if_true]
      exact ⟨{ last1 with groups := last1.groups ++ [(ts / 1000, [])] }, last1.groups, (ts / 1000, []), rfl,
        by simp [AFile.items, groupsItems], rfl, rfl,
        repL_entry fs1 init1 last1 hrep hids hlive (ts / 1000), haok.entry (ts / 1000) hsec⟩
    · simp only [hc, if_false]
      have hc' : ts / 1000 = w.latest ∧ last1.log.length ≠ 0 := by omega
      have hne : last1.groups ≠ [] := by
        intro e
        apply hc'.2
        simp [AFile.log, e, hlive.1, groupsBytes]
      obtain ⟨gi, gl, hg⟩ : ∃ gi gl, last1.groups = gi ++ [gl] :=
        ⟨last1.groups.dropLast, last1.groups.getLast hne, (List.dropLast_concat_getLast hne).symm⟩
      refine ⟨last1, gi, gl, rfl, rfl, hg, ?_, by simpa [FS.applyAll] using hrep, haok.mono hsec (Nat.le_refl _) (Nat.le_refl _)⟩
      rw [hlast hc'.1 gi gl hg, hc'.1]
  have hids2 : IdsSorted ((init1 ++ [last2]).map (·.id)) := by simpa [hid2] using hids
  have hlive2 := haok2.live last2 (by simp)
  have hsec' : ∀ it ∈ items', secOf it = gl.1 := by
    intro it hit
    rw [hitems'] at hit
    obtain ⟨x, hx, rfl⟩ := List.mem_map.mp hit
    rw [hgl]; rfl
  have hitemsAl2 : (init1 ++ [last2]).flatMap AFile.items = (init1 ++ [last1]).flatMap AFile.items := by
    simp only [List.flatMap_append, List.flatMap_cons, List.flatMap_nil, List.append_nil, hit2]
  -- the lines prefix (used twice)
  have hlinesCase : ∀ k2 j2, ∃ d m, CrashOK ((fs1.applyAll acts2).applyAll (crashPrefix (items'.map (fun it => Act.append false last1.id (lineBytes it))) k2 j2))
      (((init1 ++ [last1]).flatMap AFile.items ++ items'.take m).drop d) := by
    intro k2 j2
    have hr := lines_prefix_state (fs1.applyAll acts2) init1 last2 gi gl hrep2 hids2 hg2 hlive2.1 items' hgood' k2 j2
    rw [show last1.id = last2.id from hid2.symm]
    obtain ⟨m, t, hm, ht, hrl⟩ := hr
    refine ⟨0, m, ?_⟩
    have hshape : CrashShape (ts / 1000) init1 ({ last2 with groups := gi ++ [(gl.1, gl.2 ++ items'.take m)] } : AFile) t last2.idxTail
        (B + (items'.flatMap lineBytes).length) (N + items'.length) :=
      ⟨haok2.linesTake hg2 items' hgood' hsec' m, ht, by rw [hlive2.2]; simp⟩
    have := crashOK_of_shape _ init1 _ t last2.idxTail _ _ _ hrl (by simpa using hids2) hshape hB (by omega) hL
    have e : (init1 ++ [({ last2 with groups := gi ++ [(gl.1, gl.2 ++ items'.take m)] } : AFile)]).flatMap AFile.items =
        (init1 ++ [last1]).flatMap AFile.items ++ items'.take m := by
      rw [← hitemsAl2]
      simp [AFile.items, groupsItems, hg2, List.append_assoc]
    rw [e] at this
    simpa using this
  -- split the prefix
  rw [crashPrefix_append]
  by_cases hk : k < (acts2 ++ items'.map (fun it => Act.append false last1.id (lineBytes it))).length
  · rw [if_pos hk, crashPrefix_append]
    by_cases hk2 : k < acts2.length
    · rw [if_pos hk2]
      -- inside the index entry
      have hc : ts / 1000 > w.latest ∨ last1.log.length = 0 := by
        by_cases hc : ts / 1000 > w.latest ∨ last1.log.length = 0
        · exact hc
        · rw [if_neg hc] at hacts2; rw [← hacts2] at hk2; simp at hk2
      rw [if_pos hc] at hacts2
      rw [← hacts2]
      rcases entry_prefix_state fs1 init1 last1 hrep hids hlive (ts / 1000) k j with ⟨it, hit, hrl⟩ | hfull
      · refine ⟨0, 0, ?_⟩
        have hshape : CrashShape w.latest init1 last1 [] it B N := ⟨haok, by simp, hit⟩
        have := crashOK_of_shape _ init1 last1 [] it _ _ _ hrl hids hshape hBL hNL hLw
        simpa using this
      · rw [hfull, hacts2]
        have := hlinesCase 0 0
        rw [crashPrefix_zero_zero] at this
        simpa [FS.applyAll] using this
    · rw [if_neg hk2, applyAll_append]
      exact hlinesCase _ _
  · rw [if_neg hk, applyAll_append, applyAll_append]
    -- index entry and lines complete: the roll-over by size
    have hrep3 := repL_lines _ init1 last2 gi gl hrep2 hids2 hg2 hlive2.1 items'
    have haok3 := haok2.lines hg2 items' hgood' hsec'
    rw [show last1.id = last2.id from hid2.symm]
    obtain ⟨last3, hlast3⟩ : ∃ x : AFile, x = { last2 with groups := gi ++ [(gl.1, gl.2 ++ items')] } := ⟨_, rfl⟩
    rw [← hlast3] at hrep3 haok3
    have hid3 : last3.id = last2.id := by rw [hlast3]
    have hids3 : IdsSorted ((init1 ++ [last3]).map (·.id)) := by simpa [hlast3] using hids2
    have hitems3 : (init1 ++ [last3]).flatMap AFile.items = (init1 ++ [last1]).flatMap AFile.items ++ items' := by
      have e1 : last3.items = last2.items ++ items' := by
        rw [hlast3]; simp [AFile.items, groupsItems, hg2]
      simp only [List.flatMap_append, List.flatMap_cons, List.flatMap_nil, List.append_nil, e1, hit2, List.append_assoc]
    have hdays3 : ∀ f ∈ init1 ++ [last3], f.id.day ≤ dayOfSec (ts / 1000) := by
      intro f hf
      rcases List.mem_append.mp hf with h1 | h1
      · exact hdays f (by simp [h1])
      · simp only [List.mem_singleton] at h1; subst h1
        have := hdays last1 (by simp)
        simpa [hid3, hid2] using this
    generalize hfs3 : (fs1.applyAll acts2).applyAll (items'.map (fun it => Act.append false last2.id (lineBytes it))) = fs3 at hrep3 ⊢
    have hall : (init1 ++ [last3]).flatMap AFile.items = ((init1 ++ [last1]).flatMap AFile.items ++ items'.take items'.length) := by
      rw [List.take_length]; exact hitems3
    by_cases hroll : ((fs3.logs.get? last2.id).getD []).length ≥ w.maxSize
    · simp only [hroll, if_true]
      obtain ⟨al', q, hrepq, hal'⟩ := roll_prefix_state fs3 (init1 ++ [last3]) hrep3 hids3 w.maxFiles ts hdays3
        (k - (acts2 ++ items'.map (fun it => Act.append false last2.id (lineBytes it))).length) j
      rcases hal' with e | e
      · have := crashOK_of_aok _ al' _ _ _ hrepq (e ▸ haok3.drop q) hB (by omega) hL
        refine ⟨(((init1 ++ [last3]).take q).flatMap AFile.items).length, items'.length, ?_⟩
        rw [e, flatMap_drop_eq, hall] at this
        exact this
      · have := crashOK_of_aok _ al' _ _ _ hrepq (e ▸ haok3.drop_new q _) hB (by omega) hL
        refine ⟨(((init1 ++ [last3]).take q).flatMap AFile.items).length, items'.length, ?_⟩
        have e2 : al'.flatMap AFile.items = ((init1 ++ [last3]).drop q).flatMap AFile.items := by
          rw [e]; simp [AFile.new, AFile.items, groupsItems]
        rw [e2, flatMap_drop_eq, hall] at this
        exact this
    · simp only [hroll, if_false, crashPrefix_nil, FS.applyAll, List.foldl_nil]
      have := crashOK_of_aok fs3 _ _ _ _ (rep_of_repL _ _ hrep3 hids3) haok3 hB (by omega) hL
      refine ⟨0, items'.length, ?_⟩
      rw [hall] at this
      simpa using this


/-- **a crash at any byte of the action stream of a `write`** leaves a crash-shaped, well-formed directory holding what the log
held before plus the first `m` accepted items of this call, minus `d` items of files removed by retention -/
theorem crash_in_write (w : Writer) (fs : FS) (al : List AFile) (B N ts : Nat) (items : List MItem) (h : WInv w fs al B N)
    (hgood : ∀ it ∈ items, GoodItem { it with ts := ts })
    (hB : B + ((stamp ts items).flatMap lineBytes).length < 18446744073709551616) (hN : N + items.length + 1 < MAX_ITEM_AMOUNT)
    (hL : w.latest < 18446744073709551616 ∧ ts / 1000 < 18446744073709551616) (k j : Nat) :
    ∃ d m, CrashOK (fs.applyAll (crashPrefix (w.write fs ts items).2.1 k j))
      ((al.flatMap AFile.items ++ (accepted w ts items).take m).drop d) := by
  have hstay : ∃ d m, CrashOK (fs.applyAll (crashPrefix [] k j)) ((al.flatMap AFile.items ++ ([] : List MItem).take m).drop d) := by
    refine ⟨0, 0, ?_⟩
    have := crashOK_of_aok fs al _ _ _ (rep_of_repL fs al h.rep h.ids) h.aok (by omega) (by omega) hL.1
    simpa [crashPrefix_nil, FS.applyAll] using this
  obtain ⟨init, last, hal, hcur⟩ := h.cur
  unfold Writer.write accepted
  by_cases hemp : items.isEmpty = true
  · simp only [hemp, if_true, true_or]; exact hstay
  simp only [hemp, Bool.false_eq_true, if_false, false_or]
  by_cases hts : ts = 0
  · simp only [hts, if_true, true_or]; exact hstay
  simp only [hts, if_false, hcur, false_or]
  by_cases hold : ts / 1000 < w.latest
  · simp only [hold, if_true, or_true]; exact hstay
  simp only [hold, if_false, reduceCtorEq, or_self]
  have hsec : w.latest ≤ ts / 1000 := by omega
  have hstamp : items.map (fun (it : MItem) => ({ it with ts := ts } : MItem)) = stamp ts items := rfl
  rw [hstamp, crashPrefix_append]
  by_cases hroll : ts / 1000 > w.latest ∧ dayOfSec (ts / 1000) > dayOfSec w.latest
  · simp only [hroll, and_self, if_true]
    have hdaysAl : ∀ f ∈ al, f.id.day ≤ dayOfSec (ts / 1000) := fun f hf => Nat.le_trans (h.days f hf) (dayOfSec_mono hsec)
    by_cases hk : k < (rollActs fs w.maxFiles ts).2.length
    · rw [if_pos hk]
      obtain ⟨al', q, hrepq, hal'⟩ := roll_prefix_state fs al h.rep h.ids w.maxFiles ts hdaysAl k j
      refine ⟨((al.take q).flatMap AFile.items).length, 0, ?_⟩
      simp only [List.take_zero, List.append_nil]
      rcases hal' with e | e
      · have := crashOK_of_aok _ al' _ _ _ hrepq (e ▸ h.aok.drop q) (by omega) (by omega) hL.1
        rw [e, flatMap_drop_eq] at this
        exact this
      · have := crashOK_of_aok _ al' _ _ _ hrepq (e ▸ h.aok.drop_new q _) (by omega) (by omega) hL.1
        have e2 : al'.flatMap AFile.items = (al.drop q).flatMap AFile.items := by
          rw [e]; simp [AFile.new, AFile.items, groupsItems]
        rw [e2, flatMap_drop_eq] at this
        exact this
    · rw [if_neg hk, applyAll_append]
      have hr := roll_spec fs al h.rep h.ids w.maxFiles ts hdaysAl
      have haok1 := h.aok.drop_new (dropCount al.length w.maxFiles) (rollActs fs w.maxFiles ts).1
      obtain ⟨d, m, hc⟩ := crash_in_writeTail w (fs.applyAll (rollActs fs w.maxFiles ts).2) (al.drop (dropCount al.length w.maxFiles))
        (AFile.new (rollActs fs w.maxFiles ts).1) B N ts items hr.1 hr.2.1
        (by
          intro f hf
          rcases List.mem_append.mp hf with h1 | h1
          · exact hdaysAl f (List.mem_of_mem_drop h1)
          · simp only [List.mem_singleton] at h1; subst h1; simp only [AFile.new]; rw [hr.2.2]; exact Nat.le_refl _)
        haok1 hsec (by intro e; omega) hgood hB hN hL.2 (k - (rollActs fs w.maxFiles ts).2.length) j
      refine ⟨((al.take (dropCount al.length w.maxFiles)).flatMap AFile.items).length + d, m, ?_⟩
      have e1 : (al.drop (dropCount al.length w.maxFiles) ++ [AFile.new (rollActs fs w.maxFiles ts).1]).flatMap AFile.items =
          (al.flatMap AFile.items).drop ((al.take (dropCount al.length w.maxFiles)).flatMap AFile.items).length := by
        rw [← flatMap_drop_eq]; simp [AFile.new, AFile.items, groupsItems]
      rw [e1, drop_append_drop] at hc
      · simpa [AFile.new] using hc
      · have h2 : al.flatMap AFile.items = (al.take (dropCount al.length w.maxFiles)).flatMap AFile.items ++ (al.drop (dropCount al.length w.maxFiles)).flatMap AFile.items := by
          rw [← List.flatMap_append, List.take_append_drop]
        rw [h2, List.length_append]; omega
  · simp only [hroll, if_false, List.length_nil, Nat.not_lt_zero, List.nil_append, Nat.sub_zero, FS.applyAll, List.foldl_nil]
    rw [hal] at h ⊢
    have := crash_in_writeTail w fs init last B N ts items h.rep h.ids
      (fun f hf => Nat.le_trans (h.days f hf) (dayOfSec_mono hsec)) h.aok hsec
      (fun _ gi gl hg => h.lastSec init last rfl gi gl hg) hgood hB hN hL.2 k j
    simpa [FS.applyAll] using this


/-! ### the cached position of a long-lived searcher -/

theorem firstOffset_none_of_lt (gs : List Group) (bs : Nat) (h : ∀ g ∈ gs, g.1 < bs) : firstOffset gs bs = none := by
  unfold firstOffset
  have : gs.dropWhile (fun g => decide (g.1 < bs)) = [] := by
    induction gs with
    | nil => rfl
    | cons g r ih =>
      have hg : g.1 < bs := h g (by simp)
      simp only [List.dropWhile_cons, hg, decide_true, if_true]
      exact ih (fun x hx => h x (by simp [hx]))
  rw [this]

theorem findStart_skip (fs : FS) (bs : Nat) (A R : List AFile)
    (h : ∀ y ∈ A, (fs.idxs.get? y.id).bind (findEntry · bs) = none) :
    findStart fs bs ((A ++ R).map (·.id)) = findStart fs bs (R.map (·.id)) := by
  induction A with
  | nil => rfl
  | cons y r ih =>
    simp only [List.cons_append, List.map_cons, findStart, h y (by simp)]
    exact ih (fun z hz => h z (by simp [hz]))

theorem mem_ids_split (al : List AFile) (fid : FileId) (h : fid ∈ al.map (·.id)) :
    ∃ A x B, al = A ++ x :: B ∧ x.id = fid ∧ ∀ y ∈ A, y.id ≠ fid := by
  induction al with
  | nil => simp at h
  | cons a r ih =>
    by_cases ha : a.id = fid
    · exact ⟨[], a, r, rfl, ha, by simp⟩
    · have : fid ∈ r.map (·.id) := by
        simp only [List.map_cons, List.mem_cons] at h
        rcases h with h | h
        · exact absurd h.symm ha
        · exact h
      obtain ⟨A, x, B, e, hx, hA⟩ := ih this
      refine ⟨a :: A, x, B, by rw [e]; rfl, hx, ?_⟩
      intro y hy
      rcases List.mem_cons.mp hy with h1 | h1
      · rw [h1]; exact ha
      · exact hA y h1

theorem dropWhile_ne_split (A : List AFile) (x : AFile) (B : List AFile) (fid : FileId) (hx : x.id = fid) (hA : ∀ y ∈ A, y.id ≠ fid) :
    ((A ++ x :: B).map (·.id)).dropWhile (· ≠ fid) = (x :: B).map (·.id) := by
  induction A with
  | nil => simp [hx]
  | cons a r ih =>
    have := hA a (by simp)
    simp only [List.cons_append, List.map_cons, List.dropWhile_cons, ne_eq, this, not_false_eq_true, decide_true, if_true]
    exact ih (fun y hy => hA y (by simp [hy]))

/-- the first 8 bytes of a live file's index are its first group's second -/
theorem unbe64_idxOf (gs : List Group) (s : Nat) (hs : ∀ g ∈ gs, g.1 < 18446744073709551616) (h : unbe64 (idxOf 0 gs) = some s) :
    ∃ g rest, gs = g :: rest ∧ g.1 = s := by
  cases gs with
  | nil => simp [idxOf, unbe64] at h
  | cons g rest =>
    refine ⟨g, rest, rfl, ?_⟩
    simp only [idxOf, encEntry, List.append_assoc] at h
    rw [unbe64_be64 _ _ (hs g (by simp))] at h
    simpa using h

/-- **a search through a cached position starts where a fresh search would** -/
theorem cache_findStart (fs : FS) (al : List AFile) (hrep : Rep fs al) (hwf : WF al) (hlive : ∀ f ∈ al, f.tail = [] ∧ f.idxTail = [])
    (c : Cache) (hinv : CacheInv al c) (b : Nat) :
    findStart fs (b / 1000) (startFiles fs c b) = findStart fs (b / 1000) (al.map (·.id)) := by
  unfold startFiles
  rw [hrep.listing]
  by_cases hok : cacheOk fs c b = true
  · rw [if_pos hok]
    cases hfile : c.file with
    | none => rfl
    | some fid =>
      simp only []
      by_cases hmem : (al.map (·.id)).contains fid = true
      · rw [if_pos hmem]
        obtain ⟨A, x, B, hal, hx, hA⟩ := mem_ids_split al fid (by simpa using hmem)
        rw [hal, dropWhile_ne_split A x B fid hx hA]
        have hxm : x ∈ al := by rw [hal]; simp
        -- what the accepted cache says about `x`
        unfold cacheOk at hok
        simp only [hfile] at hok
        by_cases hb : b / 1000 < c.curSec
        · simp [hb] at hok
        · simp only [hb, if_false] at hok
          have hidx : fs.idxs.get? fid = some x.idx := by
            rcases hrep.idxs x hxm with h | ⟨h, hg⟩
            · rw [← hx]; exact h
            · rw [← hx, h] at hok; simp at hok
          rw [hidx] at hok
          simp only [] at hok
          cases hu : unbe64 x.idx with
          | none => rw [hu] at hok; simp at hok
          | some s =>
            rw [hu] at hok
            have hs : s = c.curSec := by simpa using hok
            have hxidx : x.idx = idxOf 0 x.groups := by simp [AFile.idx, (hlive x hxm).2]
            rw [hxidx] at hu
            obtain ⟨g, rest, hg, hgs⟩ := unbe64_idxOf x.groups s (hwf.small x hxm).1 hu
            have hearly := ((hinv fid hfile).2 A x B hal hx).2 g rest hg (hgs.trans hs)
            symm
            apply findStart_skip
            intro y hy
            have hym : y ∈ al := by rw [hal]; simp [hy]
            rw [idx_lookup fs y _ (hrep.idxs y hym) (hwf.small y hym) (hwf.tails y hym).2]
            apply firstOffset_none_of_lt
            intro g' hg'
            have := hearly y hy g' hg'
            omega
      · rw [if_neg hmem]
  · rw [if_neg hok]


theorem before_of_sorted (al : List AFile) (hs : IdsSorted (al.map (·.id))) (A : List AFile) (x : AFile) (B A' : List AFile) (x' : AFile) (B' : List AFile)
    (h1 : al = A ++ x :: B) (h2 : al = A' ++ x' :: B') (hid : x'.id = x.id) : ∀ y ∈ A', y ∈ A := by
  intro y hy
  have hs2 := hs
  rw [h2, List.map_append, List.map_cons] at hs2
  have hylt : y.id.lt x'.id = true :=
    (List.pairwise_append.mp hs2).2.2 y.id (List.mem_map.mpr ⟨y, hy, rfl⟩) x'.id (by simp)
  have hyal : y ∈ al := by rw [h2]; simp [hy]
  rw [h1] at hyal
  rcases List.mem_append.mp hyal with h | h
  · exact h
  · exfalso
    have hs1 := hs
    rw [h1, List.map_append, List.map_cons] at hs1
    rcases List.mem_cons.mp h with e | e
    · rw [e, hid, FileId.lt_irrefl] at hylt; simp at hylt
    · have hgt : x.id.lt y.id = true :=
        (List.pairwise_cons.mp (List.pairwise_append.mp hs1).2.1).1 y.id (List.mem_map.mpr ⟨y, e, rfl⟩)
      rw [hid] at hylt
      have := FileId.lt_asymm hgt
      rw [this] at hylt; simp at hylt

theorem nodup_of_sorted (l : List FileId) (hs : IdsSorted l) : l.Nodup := by
  unfold IdsSorted at hs
  exact List.Pairwise.imp (fun {a b} h e => by rw [e, FileId.lt_irrefl] at h; simp at h) hs

theorem decomp_unique (A : List AFile) (x : AFile) (B A' : List AFile) (x' : AFile) (B' : List AFile)
    (h : A ++ x :: B = A' ++ x' :: B') (hid : x'.id = x.id) (hnd : ((A ++ x :: B).map (·.id)).Nodup) : A = A' ∧ x = x' ∧ B = B' := by
  induction A generalizing A' with
  | nil =>
    cases A' with
    | nil => simp only [List.nil_append, List.cons.injEq] at h; exact ⟨rfl, h.1, h.2⟩
    | cons a r =>
      exfalso
      simp only [List.nil_append, List.cons_append, List.cons.injEq] at h
      simp only [List.nil_append, List.map_cons, List.nodup_cons] at hnd
      apply hnd.1
      rw [h.2, ← hid]
      simp
  | cons a r ih =>
    cases A' with
    | nil =>
      exfalso
      simp only [List.nil_append, List.cons_append, List.cons.injEq] at h
      simp only [List.cons_append, List.map_cons, List.nodup_cons] at hnd
      apply hnd.1
      rw [h.1, hid]
      simp
    | cons a' r' =>
      simp only [List.cons_append, List.cons.injEq] at h
      simp only [List.cons_append, List.map_cons, List.nodup_cons] at hnd
      obtain ⟨e1, e2, e3⟩ := ih r' h.2 hnd.2
      exact ⟨by rw [h.1, e1], e2, e3⟩

/-- where a fresh search starts, at the level of groups -/
theorem findStart_groups (fs : FS) (al : List AFile) (hrep : Rep fs al) (hwf : WF al) (bs : Nat) (files : List FileId) (sec off : Nat)
    (h : findStart fs bs (al.map (·.id)) = some (files, sec, off)) :
    ∃ A f B, al = A ++ f :: B ∧ files = f.id :: B.map (·.id) ∧ bs ≤ sec ∧ (∃ g ∈ f.groups, g.1 = sec) ∧ ∀ y ∈ A, ∀ g ∈ y.groups, g.1 < bs := by
  rw [findStart_spec fs al bs (fun f hf => idx_lookup fs f _ (hrep.idxs f hf) (hwf.small f hf) (hwf.tails f hf).2)] at h
  cases hd : al.dropWhile (fun f => (firstOffset f.groups bs).isNone) with
  | nil => rw [hd] at h; simp at h
  | cons f B =>
    rw [hd] at h
    simp only [] at h
    have hal : al = al.takeWhile (fun f => (firstOffset f.groups bs).isNone) ++ f :: B := by
      rw [← hd, List.takeWhile_append_dropWhile]
    cases hfo : firstOffset f.groups bs with
    | none => rw [hfo] at h; simp at h
    | some p =>
      rw [hfo] at h
      simp only [Option.map_some, Option.some.injEq, Prod.mk.injEq] at h
      obtain ⟨pre, g, post, hgs, hpre, hg, hsec, hoff⟩ := firstOffset_some f.groups bs p.1 p.2 (by rw [hfo])
      refine ⟨_, f, B, hal, h.1.symm, by rw [← h.2.1, hsec]; exact hg, ⟨g, by rw [hgs]; simp, by rw [← h.2.1, hsec]⟩, ?_⟩
      intro y hy g' hg'
      have := takeWhile_all_mem _ _ y hy
      exact firstOffset_none y.groups bs (by simpa using this) g' hg'

/-- **a long-lived searcher answers like a fresh one**, and its new cached position is again a good one -/
theorem cached_search_eq_fresh (fs : FS) (al : List AFile) (hrep : Rep fs al) (hwf : WF al) (hlive : ∀ f ∈ al, f.tail = [] ∧ f.idxTail = [])
    (hs : IdsSorted (al.map (·.id))) (c : Cache) (hinv : CacheInv al c) (b e : Nat) (res : List Char) (n : Nat) :
    (searchRange fs c b e res).2 = (searchRange fs {} b e res).2 ∧ CacheInv al (searchRange fs c b e res).1 ∧
    (searchLines fs c b n).2 = (searchLines fs {} b n).2 ∧ CacheInv al (searchLines fs c b n).1 := by
  have hc := cache_findStart fs al hrep hwf hlive c hinv b
  have h0 := cache_findStart fs al hrep hwf hlive {} (cacheInv_empty al) b
  -- the cache after a search that found a start
  have hnew : ∀ files sec off, findStart fs (b / 1000) (al.map (·.id)) = some (files, sec, off) →
      CacheInv al { file := files.head?, curSec := sec } := by
    intro files sec off hf
    obtain ⟨A, f, B, hal, hfiles, hle, hentry, hearly⟩ := findStart_groups fs al hrep hwf (b / 1000) files sec off hf
    intro fid hfid
    simp only [hfiles, List.head?_cons, Option.some.injEq] at hfid
    refine ⟨Or.inl (by rw [← hfid, hal]; simp), ?_⟩
    intro A' x' B' hal' hx'
    obtain ⟨e1, e2, _⟩ := decomp_unique A f B A' x' B' (by rw [← hal, hal']) (by rw [hx', hfid]) (by rw [← hal]; exact nodup_of_sorted _ hs)
    subst e1 e2
    refine ⟨hentry, ?_⟩
    intro g gs _ _ y hy g' hg'
    have := hearly y hy g' hg'
    simp only []
    omega
  unfold searchRange searchLines
  rw [hc, h0]
  cases hf : findStart fs (b / 1000) (al.map (·.id)) with
  | none => exact ⟨rfl, hinv, rfl, hinv⟩
  | some p =>
    obtain ⟨files, sec, off⟩ := p
    exact ⟨rfl, hnew files sec off hf, rfl, hnew files sec off hf⟩

end Sentinel.MLog
