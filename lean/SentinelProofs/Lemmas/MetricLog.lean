import Sentinel.MetricLog
import SentinelProofs.Props.C18
/-! Helper lemmas for C19: bytes (big-endian numbers, lines, UTF-8), the index search, directories. -/
namespace Sentinel.MLog
open Sentinel

/-! ### big-endian u64 -/

theorem be64_length (n : Nat) : (be64 n).length = 8 := rfl

theorem unbe64_be64 (n : Nat) (rest : Bytes) (h : n < 18446744073709551616) : unbe64 (be64 n ++ rest) = some n := by
  simp only [be64, unbe64, List.cons_append, List.nil_append, unbe8]
  congr 1
  omega

def encEntry (e : Nat × Nat) : Bytes := be64 e.1 ++ be64 e.2

theorem encEntry_length (e : Nat × Nat) : (encEntry e).length = 16 := rfl

theorem findEntry_short (t : Bytes) (b : Nat) (h : t.length < 16) : findEntry t b = none := by
  unfold findEntry
  split
  · simp only [List.length_cons] at h; omega
  · rfl

theorem findEntry_cons (e : Nat × Nat) (rest : Bytes) (b : Nat) (h1 : e.1 < 18446744073709551616) (h2 : e.2 < 18446744073709551616) :
    findEntry (encEntry e ++ rest) b = if e.1 ≥ b then some e else findEntry rest b := by
  have e1 : unbe8 (e.1 / 72057594037927936 % 256) (e.1 / 281474976710656 % 256) (e.1 / 1099511627776 % 256) (e.1 / 4294967296 % 256)
      (e.1 / 16777216 % 256) (e.1 / 65536 % 256) (e.1 / 256 % 256) (e.1 % 256) = e.1 := by unfold unbe8; omega
  have e2 : unbe8 (e.2 / 72057594037927936 % 256) (e.2 / 281474976710656 % 256) (e.2 / 1099511627776 % 256) (e.2 / 4294967296 % 256)
      (e.2 / 16777216 % 256) (e.2 / 65536 % 256) (e.2 / 256 % 256) (e.2 % 256) = e.2 := by unfold unbe8; omega
  simp only [encEntry, be64, List.cons_append, List.nil_append]
  rw [findEntry]
  simp only [e1, e2]

/-! ### lines -/

theorem splitLines_line (l rest : Bytes) (h : 10 ∉ l) : splitLines (l ++ 10 :: rest) = l :: splitLines rest := by
  induction l with
  | nil => simp [splitLines]
  | cons c cs ih =>
    have hc : c ≠ 10 := fun e => h (by simp [e])
    have hcs : 10 ∉ cs := fun e => h (by simp [e])
    simp only [List.cons_append, splitLines, hc, if_false, ih hcs]

theorem splitLines_tail (l : Bytes) (h : 10 ∉ l) (hne : l ≠ []) : splitLines l = [l] := by
  induction l with
  | nil => exact absurd rfl hne
  | cons c cs ih =>
    have hc : c ≠ 10 := fun e => h (by simp [e])
    have hcs : 10 ∉ cs := fun e => h (by simp [e])
    simp only [splitLines, hc, if_false]
    cases cs with
    | nil => simp [splitLines]
    | cons d ds => rw [ih hcs (by simp)]

/-! ### UTF-8: decoding what was encoded -/

theorem char_valid_nat (c : Char) : c.toNat < 55296 ∨ (57343 < c.toNat ∧ c.toNat < 1114112) := by
  have h := c.valid
  unfold UInt32.isValidChar Nat.isValidChar at h
  unfold Char.toNat
  omega

theorem utf8Decode_char (fuel : Nat) (c : Char) (rest : Bytes) :
    utf8Decode (fuel + 1) (utf8EncodeChar c ++ rest) = (utf8Decode fuel rest).map (c :: ·) := by
  have hv := char_valid_nat c
  have hc : Char.ofNat c.toNat = c := Char.ofNat_toNat c
  unfold utf8EncodeChar
  simp only []
  by_cases h1 : c.toNat < 128
  · simp only [h1, if_true, List.cons_append, List.nil_append, utf8Decode, hc]
  · by_cases h2 : c.toNat < 2048
    · have a1 : ¬ (192 + c.toNat / 64 < 128) := by omega
      have a2 : 194 ≤ 192 + c.toNat / 64 ∧ 192 + c.toNat / 64 < 224 := by omega
      have a3 : isCont (128 + c.toNat % 64) = true := by simp [isCont]; omega
      have a4 : (192 + c.toNat / 64 - 192) * 64 + (128 + c.toNat % 64 - 128) = c.toNat := by omega
      simp only [h1, h2, if_true, if_false, List.cons_append, List.nil_append, utf8Decode, a1, a2, a3, a4, hc, and_self]
    · by_cases h3 : c.toNat < 65536
      · have a1 : ¬ (224 + c.toNat / 4096 < 128) := by omega
        have a2 : ¬ (194 ≤ 224 + c.toNat / 4096 ∧ 224 + c.toNat / 4096 < 224) := by omega
        have a2' : 224 ≤ 224 + c.toNat / 4096 ∧ 224 + c.toNat / 4096 < 240 := by omega
        have a3 : isCont (128 + c.toNat / 64 % 64) = true := by simp [isCont]; omega
        have a3' : isCont (128 + c.toNat % 64) = true := by simp [isCont]; omega
        have a5 : ((224 + c.toNat / 4096 != 224) || decide (160 ≤ 128 + c.toNat / 64 % 64)) = true := by
          simp only [bne_iff_ne, ne_eq, Bool.or_eq_true, decide_eq_true_eq]; omega
        have a6 : ((224 + c.toNat / 4096 != 237) || decide (128 + c.toNat / 64 % 64 < 160)) = true := by
          simp only [bne_iff_ne, ne_eq, Bool.or_eq_true, decide_eq_true_eq]; omega
        have a4 : (224 + c.toNat / 4096 - 224) * 4096 + (128 + c.toNat / 64 % 64 - 128) * 64 + (128 + c.toNat % 64 - 128) = c.toNat := by omega
        simp only [h1, h2, h3, if_true, if_false, List.cons_append, List.nil_append, utf8Decode, a1, a2, a2', a3, a3', a4, a5, a6, hc, and_self, Bool.and_self]
      · have a1 : ¬ (240 + c.toNat / 262144 < 128) := by omega
        have a2 : ¬ (194 ≤ 240 + c.toNat / 262144 ∧ 240 + c.toNat / 262144 < 224) := by omega
        have a2' : ¬ (224 ≤ 240 + c.toNat / 262144 ∧ 240 + c.toNat / 262144 < 240) := by omega
        have a2'' : 240 ≤ 240 + c.toNat / 262144 ∧ 240 + c.toNat / 262144 < 245 := by omega
        have a3 : isCont (128 + c.toNat / 4096 % 64) = true := by simp [isCont]; omega
        have a3' : isCont (128 + c.toNat / 64 % 64) = true := by simp [isCont]; omega
        have a3'' : isCont (128 + c.toNat % 64) = true := by simp [isCont]; omega
        have a5 : ((240 + c.toNat / 262144 != 240) || decide (144 ≤ 128 + c.toNat / 4096 % 64)) = true := by
          simp only [bne_iff_ne, ne_eq, Bool.or_eq_true, decide_eq_true_eq]; omega
        have a6 : ((240 + c.toNat / 262144 != 244) || decide (128 + c.toNat / 4096 % 64 < 144)) = true := by
          simp only [bne_iff_ne, ne_eq, Bool.or_eq_true, decide_eq_true_eq]; omega
        have a4 : (240 + c.toNat / 262144 - 240) * 262144 + (128 + c.toNat / 4096 % 64 - 128) * 4096 + (128 + c.toNat / 64 % 64 - 128) * 64 + (128 + c.toNat % 64 - 128) = c.toNat := by omega
        simp only [h1, h2, h3, if_true, if_false, List.cons_append, List.nil_append, utf8Decode, a1, a2, a2', a2'', a3, a3', a3'', a4, a5, a6, hc, and_self, Bool.and_self]

theorem utf8Decode_encode (cs : List Char) (fuel : Nat) (h : cs.length < fuel) : utf8Decode fuel (utf8Encode cs) = some cs := by
  induction cs generalizing fuel with
  | nil => cases fuel with
    | zero => omega
    | succ f => simp [utf8Encode, utf8Decode]
  | cons c cs ih =>
    cases fuel with
    | zero => omega
    | succ f =>
      have : utf8Encode (c :: cs) = utf8EncodeChar c ++ utf8Encode cs := by simp [utf8Encode]
      rw [this, utf8Decode_char, ih f (by simp at h; omega)]
      rfl

theorem utf8EncodeChar_length_pos (c : Char) : 1 ≤ (utf8EncodeChar c).length := by
  unfold utf8EncodeChar; simp only []; repeat' split
  all_goals simp

theorem utf8Encode_length (cs : List Char) : cs.length ≤ (utf8Encode cs).length := by
  induction cs with
  | nil => simp [utf8Encode]
  | cons c cs ih =>
    have : utf8Encode (c :: cs) = utf8EncodeChar c ++ utf8Encode cs := by simp [utf8Encode]
    rw [this, List.length_append, List.length_cons]
    have := utf8EncodeChar_length_pos c
    omega

theorem decodeUtf8_encode (cs : List Char) : decodeUtf8 (utf8Encode cs) = some cs := by
  unfold decodeUtf8
  exact utf8Decode_encode cs _ (by have := utf8Encode_length cs; omega)

/-! ### a printed item is one line, and reads back -/

/-- not a line break -/
def plainC (c : Char) : Prop := c ≠ '\n' ∧ c ≠ '\r'

theorem digitChar_plain (d : Nat) : plainC (digitChar d) := by
  unfold digitChar plainC; split <;> decide

theorem printNat_plain (n : Nat) : ∀ c ∈ printNat n, plainC c := by
  intro c h
  unfold printNat at h
  obtain ⟨d, _, hd⟩ := List.mem_map.mp h
  exact hd ▸ digitChar_plain d

theorem timeStr_plain (ts : Nat) : ∀ c ∈ timeStr ts, plainC c := by
  intro c h
  unfold timeStr pad2 at h
  simp only [List.cons_append, List.nil_append, List.mem_cons, List.not_mem_nil, or_false] at h
  rcases h with e | e | e | e | e | e | e | e <;> subst e <;> first | exact digitChar_plain _ | (unfold plainC; decide)

theorem sanitize_plain (cs : List Char) (h : ∀ c ∈ cs, plainC c) : ∀ c ∈ sanitize cs, plainC c := by
  intro c hc
  unfold sanitize at hc
  obtain ⟨d, hd, e⟩ := List.mem_map.mp hc
  subst e
  split
  · unfold plainC; decide
  · exact h d hd

theorem joinBar_plain (fs : List (List Char)) (h : ∀ f ∈ fs, ∀ c ∈ f, plainC c) : ∀ c ∈ joinBar fs, plainC c := by
  induction fs with
  | nil => intro c hc; simp [joinBar] at hc
  | cons f rest ih =>
    cases rest with
    | nil => intro c hc; simp only [joinBar] at hc; exact h f (by simp) c hc
    | cons g more =>
      intro c hc
      simp only [joinBar, List.mem_append, List.mem_cons] at hc
      rcases hc with hc | hc | hc
      · exact h f (by simp) c hc
      · subst hc; unfold plainC; decide
      · exact ih (fun f' hf' => h f' (by simp [hf'])) c (by simpa [joinBar] using hc)

theorem toLine_plain (it : MItem) (h : ∀ c ∈ it.resource, plainC c) : ∀ c ∈ it.toLine, plainC c := by
  unfold MItem.toLine
  apply joinBar_plain
  intro f hf
  simp only [List.mem_cons, List.not_mem_nil, or_false] at hf
  rcases hf with e | e | e | e | e | e | e | e | e | e | e <;> subst e <;>
    first | exact printNat_plain _ | exact timeStr_plain _ | exact sanitize_plain _ h

theorem char_of_toNat (c : Char) (n : Nat) (h : c.toNat = n) : c = Char.ofNat n := by
  rw [← h, Char.ofNat_toNat]

theorem utf8EncodeChar_no (c : Char) (b : Nat) (hb : b < 128) (hc : c ≠ Char.ofNat b) : b ∉ utf8EncodeChar c := by
  unfold utf8EncodeChar
  simp only []
  split
  · intro hm
    simp only [List.mem_cons, List.not_mem_nil, or_false] at hm
    exact hc (char_of_toNat c b hm.symm)
  · split
    · intro hm; simp only [List.mem_cons, List.not_mem_nil, or_false] at hm; omega
    · split
      · intro hm; simp only [List.mem_cons, List.not_mem_nil, or_false] at hm; omega
      · intro hm; simp only [List.mem_cons, List.not_mem_nil, or_false] at hm; omega

theorem utf8Encode_no (cs : List Char) (b : Nat) (hb : b < 128) (hc : ∀ c ∈ cs, c ≠ Char.ofNat b) : b ∉ utf8Encode cs := by
  unfold utf8Encode
  intro hm
  obtain ⟨c, hcm, hbm⟩ := List.mem_flatMap.mp hm
  exact utf8EncodeChar_no c b hb (hc c hcm) hbm

/-- the line of an item, without the terminator -/
def lineOf (it : MItem) : Bytes := utf8Encode it.toLine

theorem lineBytes_eq (it : MItem) : lineBytes it = lineOf it ++ [10] := rfl

theorem dropLastCR_id (l : Bytes) (h : 13 ∉ l) : dropLastCR l = l := by
  unfold dropLastCR
  split
  · rename_i r hr
    exfalso; apply h
    have : 13 ∈ l.reverse := by rw [hr]; simp
    simpa using this
  · rfl

theorem dropAllCR_id (l : Bytes) (h : 13 ∉ l) : dropAllCR l = l := by
  unfold dropAllCR
  have : l.reverse.dropWhile (· = 13) = l.reverse := by
    cases hl : l.reverse with
    | nil => rfl
    | cons a r =>
      have ha : a ≠ 13 := by
        intro e; apply h
        have : a ∈ l.reverse := by rw [hl]; simp
        rw [e] at this; simpa using this
      simp [List.dropWhile, ha]
  rw [this, List.reverse_reverse]

/-- an item as the property quantifies over them: field values within their Rust types, a name without line breaks -/
def GoodItem (it : MItem) : Prop := it.inRange ∧ ∀ c ∈ it.resource, plainC c

/-- what reading the line back yields -/
theorem stored_eq (it : MItem) (h : it.inRange) : stored it = { it with resource := sanitize it.resource } := by
  obtain ⟨_, _, _, _, _, _, _, _, h8⟩ := h
  unfold stored rtypeOfU8
  by_cases h1 : 1 ≤ it.rtype ∧ it.rtype ≤ 6
  · simp [h1]
  · have : it.rtype = 0 := by omega
    simp [this]

theorem lineOf_no_nl (it : MItem) (h : GoodItem it) : 10 ∉ lineOf it :=
  utf8Encode_no _ 10 (by omega) (fun c hc => (toLine_plain it h.2 c hc).1)

theorem lineOf_no_cr (it : MItem) (h : GoodItem it) : 13 ∉ lineOf it :=
  utf8Encode_no _ 13 (by omega) (fun c hc => (toLine_plain it h.2 c hc).2)

theorem parseLine_lineOf (it : MItem) (h : GoodItem it) : parseLine (lineOf it) = some (stored it) := by
  unfold parseLine lineOf
  rw [decodeUtf8_encode, Option.bind_some, line_roundtrip it h.1, stored_eq it h.1]


/-! ### the read loops on well-formed lines -/


theorem rangeLoop_good (bs es : Nat) (res : List Char) (prev : Nat) (its : List MItem) (tail : List Bytes) (acc : List MItem)
    (hg : ∀ it ∈ its, GoodItem it) (hcap : prev + acc.length + its.length < MAX_ITEM_AMOUNT) :
    rangeLoop bs es res prev (its.map lineOf ++ tail) acc =
      if (its.map stored).all (inWin bs es) then
        rangeLoop bs es res prev tail (((its.map stored).filter (resMatch res)).reverse ++ acc)
      else ⟨acc.reverse ++ (((its.map stored).takeWhile (inWin bs es)).filter (resMatch res)), false⟩ := by
  induction its generalizing acc with
  | nil => simp
  | cons it rest ih =>
    have hgi := hg it (by simp)
    have hp : parseLine (dropLastCR (lineOf it)) = some (stored it) := by
      rw [dropLastCR_id _ (lineOf_no_cr it hgi), parseLine_lineOf it hgi]
    simp only [List.map_cons, List.cons_append, rangeLoop, hp, List.all_cons, List.takeWhile_cons, List.filter_cons]
    by_cases hw : inWin bs es (stored it) = true
    · have hw' : ¬ ((stored it).ts / 1000 < bs ∨ (stored it).ts / 1000 > es) := by
        simp only [inWin, Bool.and_eq_true, decide_eq_true_eq] at hw; omega
      simp only [hw', if_false, hw, Bool.true_and, if_true]
      by_cases hm : resMatch res (stored it) = true
      · have hm' : res.isEmpty ∨ res = (stored it).resource := by
          simpa [resMatch] using hm
        simp only [hm', if_true, hm]
        have hcap' : ¬ (prev + (stored it :: acc).length ≥ MAX_ITEM_AMOUNT) := by
          simp only [List.length_cons] at hcap ⊢; omega
        simp only [hcap', if_false]
        rw [ih (stored it :: acc) (fun x hx => hg x (by simp [hx])) (by simp only [List.length_cons] at hcap ⊢; omega)]
        split
        · simp [List.reverse_cons, List.append_assoc]
        · simp [List.reverse_cons, List.append_assoc, hm]
      · have hm' : ¬ (res.isEmpty ∨ res = (stored it).resource) := by
          simpa [resMatch] using hm
        simp only [hm', if_false, hm]
        have hcap' : ¬ (prev + acc.length ≥ MAX_ITEM_AMOUNT) := by
          simp only [List.length_cons] at hcap; omega
        simp only [hcap', if_false]
        rw [ih acc (fun x hx => hg x (by simp [hx])) (by simp only [List.length_cons] at hcap; omega)]
        split <;> simp [hm]
    · have hw' : ((stored it).ts / 1000 < bs ∨ (stored it).ts / 1000 > es) := by
        simp only [inWin, Bool.and_eq_true, decide_eq_true_eq] at hw; omega
      simp only [hw', if_true, hw, Bool.false_and]
      simp


/-! ### a log file and its index, abstractly: the groups of lines that begin at an index entry -/

abbrev Group := Nat × List MItem

def groupBytes (g : Group) : Bytes := g.2.flatMap lineBytes
def groupsBytes (gs : List Group) : Bytes := gs.flatMap groupBytes
def groupsItems (gs : List Group) : List MItem := gs.flatMap (·.2)

/-- the index file: one entry per group, holding the group's second and the offset at which its lines begin -/
def idxOf : Nat → List Group → Bytes
  | _, [] => []
  | off, g :: gs => encEntry (g.1, off) ++ idxOf (off + (groupBytes g).length) gs

theorem splitLines_items (its : List MItem) (hg : ∀ it ∈ its, GoodItem it) (t : Bytes) :
    splitLines (its.flatMap lineBytes ++ t) = its.map lineOf ++ splitLines t := by
  induction its with
  | nil => simp
  | cons it rest ih =>
    simp only [List.flatMap_cons, lineBytes_eq, List.append_assoc, List.map_cons, List.cons_append]
    rw [splitLines_line _ _ (lineOf_no_nl it (hg it (by simp))), List.nil_append, ih (fun x hx => hg x (by simp [hx]))]

theorem groupsBytes_eq_items (gs : List Group) : groupsBytes gs = (groupsItems gs).flatMap lineBytes := by
  induction gs with
  | nil => rfl
  | cons g rest ih => simp [groupsBytes, groupsItems, groupBytes, List.flatMap_append] at ih ⊢; rw [ih]

theorem groupsBytes_append (a b : List Group) : groupsBytes (a ++ b) = groupsBytes a ++ groupsBytes b := by
  simp [groupsBytes]

/-- the entry found in the index: the first group whose second is not before `b`, with the offset of its first line -/
theorem findEntry_idxOf (gs : List Group) (off b : Nat) (t : Bytes) (ht : t.length < 16)
    (hs : ∀ g ∈ gs, g.1 < 18446744073709551616) (ho : off + (groupsBytes gs).length < 18446744073709551616) :
    findEntry (idxOf off gs ++ t) b =
      match gs.dropWhile (fun g => decide (g.1 < b)) with
      | [] => none
      | g :: _ => some (g.1, off + (groupsBytes (gs.takeWhile (fun g => decide (g.1 < b)))).length) := by
  induction gs generalizing off with
  | nil => simp [idxOf, findEntry_short t b ht]
  | cons g rest ih =>
    have hlen : (groupsBytes (g :: rest)).length = (groupBytes g).length + (groupsBytes rest).length := by
      simp [groupsBytes]
    simp only [idxOf, List.append_assoc]
    rw [findEntry_cons (g.1, off) _ b (hs g (by simp)) (by omega)]
    by_cases hb : g.1 ≥ b
    · have : ¬ g.1 < b := by omega
      simp [hb, List.dropWhile, List.takeWhile, this, groupsBytes]
    · have hlt : g.1 < b := by omega
      simp only [hb, if_false]
      rw [ih (off + (groupBytes g).length) (fun x hx => hs x (by simp [hx])) (by omega)]
      simp only [List.dropWhile, hlt, decide_true, List.takeWhile]
      split <;> simp [groupsBytes, Nat.add_assoc]


/-- one log file with its index, abstractly; `tail` / `idxTail` are the torn bytes of a crash state (empty in a live log) -/
structure AFile where
  id : FileId
  groups : List Group
  tail : Bytes := []
  idxTail : Bytes := []

def AFile.log (f : AFile) : Bytes := groupsBytes f.groups ++ f.tail
def AFile.idx (f : AFile) : Bytes := idxOf 0 f.groups ++ f.idxTail
def AFile.items (f : AFile) : List MItem := groupsItems f.groups

def secOf (it : MItem) : Nat := it.ts / 1000

/-- the directory holds exactly these files, in this order -/
structure Rep (fs : FS) (al : List AFile) : Prop where
  listing : fs.listLogs = al.map (·.id)
  logs : ∀ f ∈ al, fs.logs.get? f.id = some f.log
  idxs : ∀ f ∈ al, fs.idxs.get? f.id = some f.idx ∨ (fs.idxs.get? f.id = none ∧ f.groups = [])

/-- what the writer guarantees about the files -/
structure WF (al : List AFile) : Prop where
  sorted : (al.flatMap (fun f => f.groups.map (·.1))).Pairwise (· ≤ ·)
  secs : ∀ f ∈ al, ∀ g ∈ f.groups, ∀ it ∈ g.2, secOf it = g.1
  good : ∀ f ∈ al, ∀ g ∈ f.groups, ∀ it ∈ g.2, GoodItem it
  small : ∀ f ∈ al, (∀ g ∈ f.groups, g.1 < 18446744073709551616) ∧ (groupsBytes f.groups).length < 18446744073709551616
  tails : ∀ f ∈ al, 10 ∉ f.tail ∧ f.idxTail.length < 16
  cap : (al.flatMap AFile.items).length < MAX_ITEM_AMOUNT

theorem stored_ts (it : MItem) : (stored it).ts = it.ts := rfl

theorem inWin_stored (bs es : Nat) (it : MItem) : inWin bs es (stored it) = inWin bs es it := rfl

/-- items of sorted groups are sorted -/
theorem groupsItems_sec (gs : List Group) (hs : ∀ g ∈ gs, ∀ it ∈ g.2, secOf it = g.1) (lo hi : Nat)
    (hb : ∀ g ∈ gs, lo ≤ g.1 ∧ g.1 ≤ hi) : ∀ it ∈ groupsItems gs, lo ≤ secOf it ∧ secOf it ≤ hi := by
  intro it hit
  obtain ⟨g, hg, hig⟩ := List.mem_flatMap.mp hit
  rw [hs g hg it hig]
  exact hb g hg

theorem groupsItems_sorted (gs : List Group) (hs : ∀ g ∈ gs, ∀ it ∈ g.2, secOf it = g.1)
    (hp : (gs.map (·.1)).Pairwise (· ≤ ·)) : (groupsItems gs).Pairwise (fun a b => secOf a ≤ secOf b) := by
  induction gs with
  | nil => simp [groupsItems]
  | cons g rest ih =>
    simp only [List.map_cons, List.pairwise_cons] at hp
    simp only [groupsItems, List.flatMap_cons]
    rw [List.pairwise_append]
    refine ⟨?_, ih (fun x hx => hs x (by simp [hx])) hp.2, ?_⟩
    · -- inside one group all seconds are equal
      have : ∀ a ∈ g.2, ∀ b ∈ g.2, secOf a ≤ secOf b := by
        intro a ha b hb
        rw [hs g (by simp) a ha, hs g (by simp) b hb]; exact Nat.le_refl _
      exact List.pairwise_of_forall_mem_list this
    · intro a ha b hb
      obtain ⟨g', hg', hbg⟩ := List.mem_flatMap.mp hb
      rw [hs g (by simp) a ha, hs g' (by simp [hg']) b hbg]
      exact hp.1 g'.1 (List.mem_map.mpr ⟨g', hg', rfl⟩)

/-- on a list sorted by second that begins at or after `bs`, reading until the first item outside the window loses nothing -/
theorem takeWhile_inWin_sorted (bs es : Nat) (l : List MItem) (hp : l.Pairwise (fun a b => secOf a ≤ secOf b))
    (hlo : ∀ it ∈ l, bs ≤ secOf it) : l.takeWhile (inWin bs es) = l.filter (inWin bs es) := by
  induction l with
  | nil => rfl
  | cons a rest ih =>
    simp only [List.pairwise_cons] at hp
    by_cases hw : inWin bs es a = true
    · simp only [List.takeWhile_cons, hw, if_true, List.filter_cons]
      rw [ih hp.2 (fun x hx => hlo x (by simp [hx]))]
    · simp only [List.takeWhile_cons, hw, List.filter_cons]
      have ha : es < secOf a := by
        have := hlo a (by simp)
        simp only [inWin, secOf, Bool.and_eq_true, decide_eq_true_eq] at hw this ⊢; omega
      symm
      simp only [Bool.false_eq_true, if_false]
      rw [List.filter_eq_nil_iff]
      intro x hx
      have := hp.1 x hx
      simp only [inWin, secOf, Bool.and_eq_true, decide_eq_true_eq] at this ha ⊢; omega


theorem takeWhile_append_neg {α} (p : α → Bool) (l₁ l₂ : List α) (h : l₁.all p = false) :
    (l₁ ++ l₂).takeWhile p = l₁.takeWhile p := by
  induction l₁ with
  | nil => simp at h
  | cons a r ih =>
    by_cases ha : p a = true
    · simp only [List.all_cons, ha, Bool.true_and] at h
      simp [ha, ih h]
    · simp [ha]

theorem takeWhile_append_pos {α} (p : α → Bool) (l₁ l₂ : List α) (h : l₁.all p = true) :
    (l₁ ++ l₂).takeWhile p = l₁ ++ l₂.takeWhile p := by
  induction l₁ with
  | nil => simp
  | cons a r ih =>
    simp only [List.all_cons, Bool.and_eq_true] at h
    simp [h.1, ih h.2]

theorem takeWhile_all {α} (p : α → Bool) (l : List α) (h : l.all p = true) : l.takeWhile p = l := by
  have := takeWhile_append_pos p l [] h
  simpa using this

/-- reading one live file from the offset of a group boundary: the items from there on, until the first one outside the window -/
theorem rangeOneFile_live (gs pre post : List Group) (hsplit : gs = pre ++ post) (bs es : Nat) (res : List Char) (prev : Nat)
    (hg : ∀ it ∈ groupsItems post, GoodItem it) (hcap : prev + (groupsItems post).length < MAX_ITEM_AMOUNT) :
    rangeOneFile (groupsBytes gs) (groupsBytes pre).length bs es res prev =
      ⟨(((groupsItems post).map stored).takeWhile (inWin bs es)).filter (resMatch res), ((groupsItems post).map stored).all (inWin bs es)⟩ := by
  unfold rangeOneFile
  rw [hsplit, groupsBytes_append, List.drop_left, groupsBytes_eq_items post]
  have h1 := splitLines_items (groupsItems post) hg []
  simp only [List.append_nil, splitLines] at h1
  rw [h1]
  have h2 := rangeLoop_good bs es res prev (groupsItems post) [] [] hg (by simpa using hcap)
  simp only [List.append_nil] at h2
  rw [h2]
  by_cases hall : ((groupsItems post).map stored).all (inWin bs es) = true
  · simp only [hall, if_true, rangeLoop, List.reverse_reverse]
    rw [takeWhile_all _ _ hall]
  · simp only [hall]
    simp at hall ⊢


theorem rangeRest_live (fs : FS) (B : List AFile) (hlogs : ∀ f ∈ B, fs.logs.get? f.id = some f.log) (hlive : ∀ f ∈ B, f.tail = [])
    (hgood : ∀ f ∈ B, ∀ it ∈ f.items, GoodItem it) (bs es : Nat) (res : List Char) (items : List MItem)
    (hcap : items.length + (B.flatMap AFile.items).length < MAX_ITEM_AMOUNT) :
    rangeRest fs bs es res (B.map (·.id)) items =
      some (items ++ (((B.flatMap AFile.items).map stored).takeWhile (inWin bs es)).filter (resMatch res)) := by
  induction B generalizing items with
  | nil => simp [rangeRest]
  | cons f rest ih =>
    have hlen : ((f :: rest).flatMap AFile.items).length = (groupsItems f.groups).length + (rest.flatMap AFile.items).length := by
      simp only [List.flatMap_cons, List.length_append]; rfl
    have hlog : f.log = groupsBytes f.groups := by simp [AFile.log, hlive f (by simp)]
    have hr := rangeOneFile_live f.groups [] f.groups rfl bs es res items.length (hgood f (by simp)) (by omega)
    simp only [List.map_cons, rangeRest, hlogs f (by simp), hlog]
    have h0 : (groupsBytes []).length = 0 := rfl
    rw [h0] at hr
    rw [hr]
    simp only []
    by_cases hall : ((groupsItems f.groups).map stored).all (inWin bs es) = true
    · simp only [hall, if_true]
      rw [takeWhile_all _ _ hall]
      have hle : (List.filter (resMatch res) (List.map stored (groupsItems f.groups))).length ≤ (groupsItems f.groups).length := by
        exact Nat.le_trans (List.length_filter_le _ _) (by simp)
      rw [ih (fun x hx => hlogs x (by simp [hx])) (fun x hx => hlive x (by simp [hx])) (fun x hx => hgood x (by simp [hx])) _
        (by rw [List.length_append]; omega)]
      simp only [List.flatMap_cons, List.map_append, AFile.items]
      rw [takeWhile_append_pos _ _ _ hall]
      simp [List.filter_append, List.append_assoc]
    · have hall' : ((groupsItems f.groups).map stored).all (inWin bs es) = false := by simpa using hall
      simp only [hall', Bool.false_eq_true, if_false]
      simp only [List.flatMap_cons, List.map_append, AFile.items]
      rw [takeWhile_append_neg _ _ _ hall']

/-- what the index of a file answers for a begin second -/
def firstOffset (gs : List Group) (bs : Nat) : Option (Nat × Nat) :=
  match gs.dropWhile (fun g => decide (g.1 < bs)) with
  | [] => none
  | g :: _ => some (g.1, (groupsBytes (gs.takeWhile (fun g => decide (g.1 < bs)))).length)

theorem idx_lookup (fs : FS) (f : AFile) (bs : Nat)
    (hidx : fs.idxs.get? f.id = some f.idx ∨ (fs.idxs.get? f.id = none ∧ f.groups = []))
    (hs : (∀ g ∈ f.groups, g.1 < 18446744073709551616) ∧ (groupsBytes f.groups).length < 18446744073709551616)
    (ht : f.idxTail.length < 16) :
    (fs.idxs.get? f.id).bind (findEntry · bs) = firstOffset f.groups bs := by
  rcases hidx with h | ⟨h, hg⟩
  · rw [h, Option.bind_some, AFile.idx, findEntry_idxOf f.groups 0 bs f.idxTail ht hs.1 (by omega)]
    unfold firstOffset
    split <;> simp_all
  · rw [h, hg]; rfl

theorem findStart_spec (fs : FS) (al : List AFile) (bs : Nat)
    (hidx : ∀ f ∈ al, (fs.idxs.get? f.id).bind (findEntry · bs) = firstOffset f.groups bs) :
    findStart fs bs (al.map (·.id)) =
      match al.dropWhile (fun f => (firstOffset f.groups bs).isNone) with
      | [] => none
      | f :: B => (firstOffset f.groups bs).map (fun p => (f.id :: B.map (·.id), p.1, p.2)) := by
  induction al with
  | nil => rfl
  | cons f rest ih =>
    simp only [List.map_cons, findStart, hidx f (by simp)]
    cases hfo : firstOffset f.groups bs with
    | none =>
      simp only [List.dropWhile, hfo, Option.isNone_none]
      exact ih (fun x hx => hidx x (by simp [hx]))
    | some p =>
      simp [List.dropWhile, hfo]


theorem secOf_stored (it : MItem) : secOf (stored it) = secOf it := rfl

theorem filter_inRange (l : List MItem) (b e : Nat) (res : List Char) :
    l.filter (inRange b e res) = (l.filter (inWin (b / 1000) (e / 1000))).filter (resMatch res) := by
  rw [List.filter_filter]
  congr 1
  funext it
  simp [inRange, Bool.and_comm]

theorem filter_inWin_early (l : List MItem) (bs es : Nat) (h : ∀ it ∈ l, secOf it < bs) : (l.map stored).filter (inWin bs es) = [] := by
  rw [List.filter_eq_nil_iff]
  intro x hx
  obtain ⟨it, hit, rfl⟩ := List.mem_map.mp hx
  have := h it hit
  simp only [inWin, secOf, stored_ts, Bool.and_eq_true, decide_eq_true_eq] at this ⊢
  intro h1
  have := of_decide_eq_true h1.1
  omega

/-- the items before the start position are too early, the ones from it on are sorted: reading until the first item past the
window returns exactly the items of the window -/
theorem assemble (early frm : List MItem) (b e : Nat) (res : List Char) (hearly : ∀ it ∈ early, secOf it < b / 1000)
    (hlo : ∀ it ∈ frm, b / 1000 ≤ secOf it) (hsorted : frm.Pairwise (fun x y => secOf x ≤ secOf y)) :
    specRange ((early ++ frm).map stored) b e res =
      ((frm.map stored).takeWhile (inWin (b / 1000) (e / 1000))).filter (resMatch res) := by
  unfold specRange
  rw [filter_inRange, List.map_append, List.filter_append, filter_inWin_early early _ _ hearly, List.nil_append]
  rw [takeWhile_inWin_sorted (b / 1000) (e / 1000) (frm.map stored)]
  · exact List.Pairwise.map stored (fun x y h => h) hsorted
  · intro x hx
    obtain ⟨it, hit, rfl⟩ := List.mem_map.mp hx
    exact hlo it hit

theorem dropWhile_nil_all {α} (p : α → Bool) (l : List α) (h : l.dropWhile p = []) : ∀ a ∈ l, p a = true := by
  induction l with
  | nil => intro a ha; simp at ha
  | cons x r ih =>
    by_cases hx : p x = true
    · simp only [List.dropWhile_cons, hx, if_true] at h
      intro a ha
      rcases List.mem_cons.mp ha with e | e
      · exact e ▸ hx
      · exact ih h a e
    · simp [List.dropWhile_cons, hx] at h

theorem takeWhile_all_mem {α} (p : α → Bool) (l : List α) : ∀ a ∈ l.takeWhile p, p a = true := by
  induction l with
  | nil => intro a ha; simp at ha
  | cons x r ih =>
    by_cases hx : p x = true
    · simp only [List.takeWhile_cons, hx, if_true]
      intro a ha
      rcases List.mem_cons.mp ha with e | e
      · exact e ▸ hx
      · exact ih a e
    · simp [List.takeWhile_cons, hx]

theorem dropWhile_head_not {α} (p : α → Bool) (l : List α) (a : α) (r : List α) (h : l.dropWhile p = a :: r) : p a = false := by
  induction l with
  | nil => simp at h
  | cons x t ih =>
    by_cases hx : p x = true
    · simp only [List.dropWhile_cons, hx, if_true] at h
      exact ih h
    · simp only [List.dropWhile_cons, hx] at h
      simp only [Bool.false_eq_true, if_false, List.cons.injEq] at h
      rw [← h.1]; simpa using hx

theorem firstOffset_none (gs : List Group) (bs : Nat) (h : firstOffset gs bs = none) : ∀ g ∈ gs, g.1 < bs := by
  unfold firstOffset at h
  split at h
  · rename_i hd
    intro g hg
    have := dropWhile_nil_all _ _ hd g hg
    simpa using this
  · simp at h

theorem firstOffset_some (gs : List Group) (bs sec off : Nat) (h : firstOffset gs bs = some (sec, off)) :
    ∃ pre g post, gs = pre ++ g :: post ∧ (∀ x ∈ pre, x.1 < bs) ∧ bs ≤ g.1 ∧ sec = g.1 ∧ off = (groupsBytes pre).length := by
  unfold firstOffset at h
  split at h
  · simp at h
  · rename_i g post hd
    simp only [Option.some.injEq, Prod.mk.injEq] at h
    refine ⟨gs.takeWhile (fun g => decide (g.1 < bs)), g, post, ?_, ?_, ?_, h.1.symm, h.2.symm⟩
    · rw [← hd, List.takeWhile_append_dropWhile]
    · intro x hx
      have := takeWhile_all_mem _ _ x hx
      simpa using this
    · have := dropWhile_head_not _ _ _ _ hd
      simp only [decide_eq_false_iff_not] at this
      omega


theorem items_flatMap_groups (B : List AFile) : B.flatMap AFile.items = groupsItems (B.flatMap (·.groups)) := by
  induction B with
  | nil => rfl
  | cons f r ih => simp only [List.flatMap_cons, ih, AFile.items, groupsItems, List.flatMap_append]

theorem length_takeWhile_le' {α} (p : α → Bool) (l : List α) : (l.takeWhile p).length ≤ l.length := by
  induction l with
  | nil => simp
  | cons a r ih =>
    simp only [List.takeWhile_cons]
    split
    · simp only [List.length_cons]; omega
    · simp

end Sentinel.MLog
