import Sentinel.Proto
import Sentinel.World
import Sentinel.BreakerSpec
/-!
Driver for the entry-level properties on the global slot chain (C01, C04, C05-isolation):
correspondence of `World` with the implementation, and the Specs evaluated on the implementation's
own observations (admission rule, accounting, concurrency cap).
-/
namespace Sentinel.DriverWorld
open Sentinel

def obsField (obs : String) (k : String) : String :=
  match (tokens obs).filterMap (fun t => match splitFirst t "=" with
      | some (a, b) => if a == k then some b else none
      | none => none) with
  | v :: _ => v
  | [] => ""

def natsStr (l : List Nat) : String := ",".intercalate (l.map toString)
def kinds : List Kind := [.pass, .block, .complete, .error, .rt]

def isPerm (a b : List String) : Bool :=
  a.length == b.length && a.all (fun x => a.count x == b.count x) && b.all (fun x => a.count x == b.count x)

/-- Are the rules the implementation holds after a load (`held`, by id) an acceptable outcome for the `loaded` list?
Rule sets hash the id but compare without it, so a rule given twice under two ids may be kept once or twice: every held
id must be a loaded one (no repeats), and every loaded rule must be equal — ignoring the id — to some held rule. -/
def heldOk {α : Type} (getId : α → String) (eqv : α → α → Bool) (loaded : List α) (held : List String) : Bool :=
  held.all (fun h => held.count h == 1 && loaded.any (fun r => getId r == h)) &&
  loaded.all (fun r => loaded.any (fun r' => held.contains (getId r') && eqv r r'))

/-- remove the first element with the given id -/
def eraseById {ρ : Type} (getId : ρ → String) : List ρ → String → List ρ
  | [], _ => []
  | x :: xs, i => if getId x == i then xs else x :: eraseById getId xs i

/-- Reconstruct, from the controllers the implementation holds after a (re)load (`held`: the ids of the bound rules, in
the order held), the order in which it processed the `loaded` rules. A held id is either the id of an old controller
that was reused for an equal loaded rule, or the id of a loaded rule that got a new controller. Rules left over must be
equal to a processed one (a rule given under two ids may be kept once). -/
def adoptOrder {ρ κ : Type} (getId : ρ → String) (getIdK : κ → String) (sameRule : ρ → κ → Bool) (eqv : ρ → ρ → Bool)
    (loaded : List ρ) (old : List κ) (held : List String) : Option (List ρ) :=
  let rec go (un : List ρ) (oldLeft : List κ) (acc : List ρ) : List String → Option (List ρ)
    | [] => if un.all (fun r => acc.any (fun a => eqv r a)) then some acc.reverse else none
    | h :: rest =>
      -- a reused old controller?
      match oldLeft.find? (fun o => getIdK o == h && un.any (fun r => sameRule r o)) with
      | some o =>
        -- which of the (equal) loaded rules stands behind the reused controller: prefer one whose id does not show up later as a
        -- newly built controller
        match (un.find? (fun r => sameRule r o && !rest.contains (getId r))).orElse (fun _ => un.find? (fun r => sameRule r o)) with
        | some r => go (eraseById getId un (getId r)) (oldLeft.filter (fun x => getIdK x != h)) (r :: acc) rest
        | none => none
      | none =>
        match un.find? (fun r => getId r == h) with
        | some r => go (eraseById getId un (getId r)) oldLeft (r :: acc) rest
        | none => none
  go loaded old [] held

def flowEqv (a b : FlowSpec) : Bool :=
  a.thr == b.thr && a.ivl == b.ivl && a.warmUp == b.warmUp && a.throttling == b.throttling && a.period == b.period &&
  a.coldFactor == b.coldFactor && a.maxQueueMs == b.maxQueueMs
def isoEqv (a b : IsoRule) : Bool := a.thr == b.thr
def sysEqv (a b : SysRule) : Bool := a.metric == b.metric && a.bbr == b.bbr && a.thr == b.thr
def hsEqv (a b : HsRule) : Bool :=
  a.metric == b.metric && a.strategy == b.strategy && a.paramIndex == b.paramIndex && a.paramKey == b.paramKey && a.thr == b.thr &&
  a.durSec == b.durSec && a.maxCap == b.maxCap && a.specific == b.specific &&
  (if a.strategy == .reject then a.burst == b.burst else a.maxQueueMs == b.maxQueueMs)
def brEqv (a b : BRule) : Bool :=
  a.strategy == b.strategy && a.retryMs == b.retryMs && a.minReq == b.minReq && a.ivl == b.ivl && a.buckets == b.buckets &&
  (match a.strategy with | .slowRatio => a.maxRt == b.maxRt && a.thr == b.thr | _ => a.thr == b.thr)

/-! ### Spec state, built only from the operations and the implementation's observations -/

structure SRule where
  id : String
  thr : F64
  L : Nat           -- bucket length of the rule's statistic window
  W : Nat           -- window width
  priv : Bool
  since : Nat       -- admissions with sequence number ≥ since are visible to a private window
  deriving Inhabited

structure SpecSt where
  flow : List (String × List SRule) := []
  iso : List (String × List IsoRule) := []
  sys : List SysRule := []
  load : F64 := F64.zero
  cpu : F64 := F64.zero
  admitted : List (String × Nat × Nat × Nat) := []     -- res, time ms, tokens, seq
  seq : Nat := 0
  events : List (String × Nat × Ev) := []              -- node name, time, event
  open_ : List (Nat × String × Nat × Bool × Nat) := [] -- eid, res, batch, inbound, start ms
  other : List String := []                            -- resources carrying rules outside the composite reject/iso/system Spec
  hs : List (String × List HsRule) := []               -- hotspot rules per resource, in the implementation's order
  hsRef : List (String × HsCtrl) := []                 -- one isolated reference controller per resource/rule/value
  hsOpen : List (Nat × List String) := []              -- entry -> reference keys whose in-flight count it raised
  hsAdm : List (String × Nat × Nat) := []              -- reference key -> (time of first request, tokens admitted since)
  hsLast : List (String × Nat) := []                   -- reference key -> scheduled time (ms) of the last admitted request (throttling)
  warm : List (String × Nat × Nat × Nat) := []         -- resource -> (q, cold factor, period) of its warm-up rule
  phase : Option (String × Nat × Nat × Nat × Nat × Nat) := none  -- (kind, q, p, c, per, start ms) of the demand phase being watched
  brs : List (String × List SBreaker) := []            -- Spec breakers per resource, implementation order
  brHooks : List (Nat × List String) := []             -- entry -> breakers it probes
  thrN : List (String × List FlowSpec) := []     -- resources all of whose flow rules are direct/throttling (implementation order)
  thrLast : List (String × Nat) := []                  -- resource/rule -> scheduled time (ns) of the last admitted request
  deriving Inhabited

def ruleGeometry (ivl : Nat) : Nat × Nat × Bool :=
  match flowStatFor ivl with
  | .global rd => (500, rd.iv, false)
  | .priv g _ rd _ => (g.L, rd.iv, true)
  | .nop => (1, 1, false)

/-- tokens admitted for `res` in the bucket-aligned window of rule `r` ending at `t` -/
def admittedIn (sp : SpecSt) (res : String) (r : SRule) (t : Nat) : Nat :=
  let hi := t - t % r.L
  let lo := hi - r.W + r.L
  ((sp.admitted.filter (fun a => a.1 == res && (!r.priv || a.2.2.2 ≥ r.since) &&
      lo ≤ a.2.1 - a.2.1 % r.L && a.2.1 - a.2.1 % r.L ≤ hi)).map (fun a => a.2.2.1)).sum

def fits (sp : SpecSt) (res : String) (r : SRule) (t n : Nat) : Bool :=
  !F64.ltNat r.thr (admittedIn sp res r t + n)

def openConc (sp : SpecSt) (res : String) : Nat := (sp.open_.filter (fun e => e.2.1 == res)).length
def openInbound (sp : SpecSt) : Nat := (sp.open_.filter (fun e => e.2.2.2.1)).length

structure St where
  w : World := {}
  sp : SpecSt := {}
  sh : World := {}                 -- shadow: the same history with every reload of an unchanged rule set left out (C11 Spec)
  reloaded : List String := []     -- resources whose rules were loaded more than once
  loadedOnce : List String := []
  deriving Inhabited

/-- multiset equality under an equivalence -/
def msetEq {α β : Type} (eqv : α → β → Bool) (a : List α) (b : List β) : Bool :=
  a.length == b.length &&
  (a.foldl (fun (acc : Option (List β)) x => match acc with
    | none => none
    | some l => match l.findIdx? (fun y => eqv x y) with
      | some i => some (l.eraseIdx i)
      | none => none) (some b)).isSome

/-- a (re)load of resource `key`: first load or reload? -/
def noteLoad (st : St) (key : String) : St :=
  if st.loadedOnce.contains key then
    -- from now on only the correspondence and the transparency Spec apply to this resource
    { st with reloaded := if st.reloaded.contains key then st.reloaded else key :: st.reloaded }
  else { st with loadedOnce := key :: st.loadedOnce }

/-- the system slot's observation computed from the implementation's own pass / exit history of inbound entries -/
def specSysObs (sp : SpecSt) (t : Nat) : SysObs :=
  let evs : List TEv := (sp.events.filter (fun e => e.1 == "__inbound__")).map (fun e => e.2)
  let hi := t - t % 500
  let lo := hi - 1000 + 500
  let sum := fun k => windowSum 500 evs lo hi k
  let xb := max (windowSum 500 evs lo lo .complete) (windowSum 500 evs hi hi .complete)
  { qps := F64.div (F64.ofNat (sum .pass)) defaultReader.intervalS,
    conc := openInbound sp,
    avgRt := if sum .complete = 0 then F64.zero else F64.div (F64.ofNat (sum .rt)) (F64.ofNat (sum .complete)),
    load := sp.load, cpu := sp.cpu,
    maxComplete := F64.mul (F64.div (F64.mul (F64.ofNat xb) (F64.ofNat 2)) (F64.ofNat 1000)) (F64.ofNat 1000),
    minRt := F64.ofNat (windowMinRt 500 evs lo hi) }

/-! ### circuit-breaker Spec: `Sentinel/BreakerSpec.lean` (SBreaker.enter / complete / rollback, specBrEnter) -/

/-! ### hotspot Spec: every parameter value has its own, isolated reference controller -/

structure HsExpect where
  block : Option (String × Nat) := none     -- (rule id, snapshot) of the first controller that must block
  sleepNs : Nat := 0                        -- total time the caller must be held
  msg : Option String := none               -- a Spec violation found while stepping the references
  deriving Inhabited

def refKey (res rule arg : String) : String := s!"{res}/{rule}/{arg}"

/-- step the isolated references of `res` for one request; `now` in ns -/
def hsExpect (sp : SpecSt) (res : String) (nowNs batch : Nat) (args : Option (List String))
    (atts : Option (List (String × String))) : SpecSt × HsExpect :=
  let rules := (World.lookup sp.hs res).getD []
  let rec go (sp : SpecSt) (ex : HsExpect) (now : Nat) : List HsRule → SpecSt × HsExpect
    | [] => (sp, ex)
    | r :: rest =>
      match extractArgs r args atts with
      | none => go sp ex now rest
      | some arg =>
        let key := refKey res r.id arg
        -- the reference never evicts: capacity far above the number of values
        let c0 := (World.lookup sp.hsRef key).getD (HsCtrl.new { r with maxCap := 0 })
        let nowMs := now / 1000000
        let (c1, res1) := c0.check nowMs arg batch
        let sp := { sp with hsRef := World.update sp.hsRef key c1 }
        match res1 with
        | .blocked snap _ => (sp, { ex with block := some (r.id, snap) })
        | .wait w =>
          -- Spec side conditions of throttling: queued only within the maximum queueing time; spacing ≥ cost
          let cost := throttleCost batch r.durSec (r.thrFor arg)
          let last := (World.lookup sp.hsLast key).getD 0
          let sched := nowMs + w
          let ex := if w > r.maxQueueMs && r.maxQueueMs > 0 then { ex with msg := some s!"queued for {w} ms beyond the maximum queueing time {r.maxQueueMs}" } else ex
          let ex := if last != 0 && sched < last + cost then { ex with msg := some s!"scheduled {sched - last} ms after the previous admission, closer than the cost {cost}" } else ex
          let sp := { sp with hsLast := World.update sp.hsLast key sched }
          go sp { ex with sleepNs := ex.sleepNs + hsWaitToNs w } (now + hsWaitToNs w) rest
        | .pass =>
          let sp := if r.metric == .qps && r.strategy == .throttling then { sp with hsLast := World.update sp.hsLast key nowMs } else sp
          -- token bound for QPS reject: admitted(first..t) ≤ q + b + q·(t − first)/d
          let (sp, ex) := if r.metric == .qps && r.strategy == .reject then
              let (first, adm) := (World.lookup sp.hsAdm key).getD (nowMs, 0)
              let adm := adm + batch
              let q := r.thrFor arg
              let ex := if (adm - (q + r.burst)) * (r.durSec * 1000) > q * (nowMs - first) then
                  { ex with msg := some s!"value {arg}: {adm} tokens admitted since {first}, above q+b+q*(t-first)/d (q={q} b={r.burst} d={r.durSec} t={nowMs})" } else ex
              ({ sp with hsAdm := World.update sp.hsAdm key (first, adm) }, ex)
            else (sp, ex)
          go sp ex now rest
  go sp {} nowNs rules

/-- Spec of flow throttling for a resource whose rules are all direct/throttling, evaluated on the implementation's
observation: every rule keeps its own schedule; a request is queued behind every rule in turn (only if that rule's wait
is within its maximum queueing time, rejected otherwise) and the caller is held until the last scheduled time. -/
def specThrottleN (sp : SpecSt) (res : String) (rules : List FlowSpec) (nowNs batch : Nat) (obs : String) (dtObs : Nat) :
    SpecSt × Option String :=
  let rec go (sp : SpecSt) (t : Nat) : List FlowSpec → SpecSt × Option String
    | [] =>
      -- every rule admitted the request
      if obs != "pass" then (sp, some s!"rejected although every throttling rule can queue the request within its maximum queueing time: {obs}")
      else if nowNs + dtObs < t then (sp, some s!"caller released after {dtObs} ns, before its scheduled time (wait {t - nowNs} ns)")
      else if nowNs + dtObs > t then (sp, some s!"caller held {dtObs} ns, longer than its scheduled wait {t - nowNs} ns")
      else (sp, none)
    | r :: rest =>
      if batch = 0 then go sp t rest else
      let key := res ++ "/" ++ r.id
      let ivlNs := (if r.ivl = 0 then 1000 else r.ivl) * 1000000
      let maxq := r.maxQueueMs * 1000000
      let cost := (F64.mul (F64.div (F64.ofNat batch) r.thr) (F64.ofNat ivlNs)).toNatFloor
      let never := !F64.lt F64.zero r.thr || F64.ltNat r.thr batch
      let last := (World.lookup sp.thrLast key).getD 0
      let wouldWait := if last + cost ≤ t then 0 else last + cost - t
      if never || wouldWait > maxq then
        -- this rule must reject
        if obs == "pass" then (sp, some s!"admitted although rule {r.id} cannot serve it (threshold 0, batch above threshold, or wait {wouldWait} ns above the maximum {maxq} ns)")
        else if obsField obs "type" != "Flow" then (sp, some s!"throttling rejection reported with block type {obsField obs "type"}")
        else if nowNs + dtObs != t then (sp, some s!"caller held {dtObs} ns before the rejection, the waits already due were {t - nowNs} ns")
        else (sp, none)
      else
        go { sp with thrLast := World.update sp.thrLast key (t + wouldWait) } (t + wouldWait) rest
  go sp nowNs rules

def renderBuild : BuildRes → String
  | .pass => "pass"
  | .blocked ty rule snap => s!"blocked type={ty} rule={rule} snap={snap}"

def evStr (l : List BEvent) : String :=
  if l.isEmpty then "" else " ev=" ++ "|".intercalate (l.map BEvent.toStr)

def renderNode (n : Node) (now : Nat) : String :=
  let rd := defaultReader
  s!"s={natsStr (kinds.map (fun k => n.sum rd now k))} conc={n.conc} m={n.ring.minRt globalGeo rd now} " ++
  s!"q={(n.ring.qpsWithTime globalGeo rd now .pass).toStr} a={(n.ring.avgRt globalGeo rd now).toStr}"

def parseFlowRules (l : List String) : Except String (List FlowSpec) :=
  l.mapM (fun s =>
    let p := s.splitOn ":"
    let g := fun (i : Nat) (d : String) => (p[i]?).getD d
    if p.length < 3 then .error s!"bad-op: flow rule {s}" else do
      let f ← parseFrac "thr" (g 1 "")
      let i ← parseNat "ivl" (g 2 "")
      let period ← parseNat "period" (g 5 "0")
      let cold ← parseNat "cold" (g 6 "0")
      let maxq ← parseNat "maxq" (g 7 "0")
      pure { id := g 0 "", thr := F64.roundDiv f.num f.den, ivl := i, warmUp := g 3 "d" == "w",
             throttling := g 4 "r" == "t", period := period, coldFactor := cold, maxQueueMs := maxq })

def parseInt (what s : String) : Except String Int :=
  if s.startsWith "-" then do let n ← parseNat what (s.drop 1).toString; pure (-(n : Int))
  else do let n ← parseNat what s; pure (n : Int)

def parseHsRules (l : List String) : Except String (List HsRule) :=
  l.mapM (fun s =>
    let p := s.splitOn ";"
    let g := fun (i : Nat) (d : String) => (p[i]?).getD d
    if p.length < 10 then .error s!"bad-op: hotspot rule {s}" else do
      let idx ← parseInt "idx" (g 3 "0")
      let thr ← parseNat "thr" (g 5 "0")
      let maxq ← parseNat "maxq" (g 6 "0")
      let burst ← parseNat "burst" (g 7 "0")
      let dur ← parseNat "dur" (g 8 "0")
      let cap ← parseNat "cap" (g 9 "0")
      let spec ← (listOf (g 10 "") "|").mapM (fun kv => match splitFirst kv "=" with
        | some (k, v) => do let n ← parseNat "specific" v; pure (k, n)
        | none => .error s!"bad-op: specific item {kv}")
      pure { id := g 0 "", metric := if g 1 "" == "c" then .concurrency else .qps,
             strategy := if g 2 "" == "t" then .throttling else .reject, paramIndex := idx, paramKey := g 4 "",
             thr := thr, maxQueueMs := maxq, burst := burst, durSec := dur, maxCap := cap, specific := spec })

def parseBrRules (l : List String) : Except String (List BRule) :=
  l.mapM (fun s =>
    match s.splitOn ";" with
    | [id, st, retry, minreq, ivl, buckets, maxrt, thr] => do
      let retry ← parseNat "retry" retry
      let minreq ← parseNat "minreq" minreq
      let ivl ← parseNat "ivl" ivl
      let buckets ← parseNat "buckets" buckets
      let maxrt ← parseNat "maxrt" maxrt
      let f ← parseFrac "thr" thr
      pure { id := id, strategy := if st == "s" then .slowRatio else if st == "r" then .errorRatio else .errorCount,
             retryMs := retry, minReq := minreq, ivl := ivl, buckets := buckets, maxRt := maxrt, thr := F64.roundDiv f.num f.den }
    | _ => .error s!"bad-op: breaker rule {s}")

def parseSysRules (l : List String) : Except String (List SysRule) :=
  l.mapM (fun s => match s.splitOn ":" with
    | [id, m, st, thr] => do
      let metric ← (match m with
        | "load" => .ok SysMetric.load | "avgrt" => .ok .avgRt | "conc" => .ok .concurrency
        | "qps" => .ok .inboundQps | "cpu" => .ok .cpuUsage
        | _ => .error s!"bad-op: metric {m}" : Except String SysMetric)
      let f ← parseFrac "thr" thr
      pure ⟨id, metric, st == "bbr", F64.roundDiv f.num f.den⟩
    | _ => .error s!"bad-op: system rule {s}")

def parseIsoRules (l : List String) : Except String (List IsoRule) :=
  l.mapM (fun s => match s.splitOn ":" with
    | [id, thr] => do let t ← parseNat "thr" thr; pure ⟨id, t⟩
    | _ => .error s!"bad-op: iso rule {s}")

def reorder {α : Type} (getId : α → String) (l : List α) (ids : List String) : List α :=
  ids.filterMap (fun i => l.find? (fun a => getId a == i))

/-- the Spec for one `build` observation -/
def specBuild (sp : SpecSt) (res : String) (t n : Nat) (inbound : Bool) (obs : String) : Option String :=
  let so := specSysObs sp t
  let sysTripping := if inbound then sp.sys.filter (fun r => (r.trips so).1) else []
  let sysOk := sysTripping.isEmpty
  let frules := (World.lookup sp.flow res).getD []
  let irules := (World.lookup sp.iso res).getD []
  let conc := openConc sp res
  let flowOk := frules.all (fun r => fits sp res r t n)
  let isoOk := irules.all (fun r => conc + n ≤ r.thr)
  if obs == "pass" then
    if !sysOk then some s!"inbound entry admitted although a system metric trips (rule {(sysTripping.map (·.id))})"
    else if !flowOk then some s!"admitted although a flow rule's window is exhausted (res {res} t={t} n={n})"
    else if !isoOk then some s!"admitted although in-flight {conc} + {n} exceeds an isolation threshold"
    else none
  else if obs.startsWith "blocked" then
    let ty := obsField obs "type"
    let rule := obsField obs "rule"
    let snap := obsField obs "snap"
    if flowOk && isoOk && sysOk then some s!"rejected although the request fits every rule (res {res} t={t} n={n} inbound={inbound}): {obs}"
    else if ty == "SystemFlow" then
      match sysTripping.find? (fun r => r.id == rule) with
      | none => some s!"system block names a rule whose metric does not trip (or outbound entry affected): {obs}"
      | some r =>
        if snap != World.snapStr (r.trips so).2 then some s!"system block snapshot {snap} is not the observed value {World.snapStr (r.trips so).2}"
        else none
    else if ty == "Flow" then
      match frules.find? (fun r => r.id == rule) with
      | none => some s!"flow block names no loaded rule: {obs}"
      | some r =>
        if fits sp res r t n then some s!"flow block names a rule whose window is not exhausted: {obs}"
        else if snap != toString (admittedIn sp res r t) then some s!"flow block snapshot {snap} is not the window count {admittedIn sp res r t}"
        else none
    else if ty == "Isolation" then
      match irules.find? (fun r => r.id == rule) with
      | none => some s!"isolation block names no loaded rule: {obs}"
      | some r =>
        if conc + n ≤ r.thr then some s!"isolation block names a rule that is not exceeded: {obs}"
        else if snap != toString conc then some s!"isolation block snapshot {snap} is not the in-flight count {conc}"
        else none
    else some s!"rejection reported with block type {ty} (expected SystemFlow, Flow or Isolation): {obs}"
  else some s!"unexpected build observation: {obs}"

/-- the Spec for a `node` observation: accounting computed from the implementation's own pass/block/exit history -/
def specNode (sp : SpecSt) (name : String) (t : Nat) (obs : String) : Option String :=
  let evs : List TEv := (sp.events.filter (fun e => e.1 == name)).map (fun e => e.2)
  let hi := t - t % 500
  let lo := hi - 1000 + 500
  let s := natsStr (kinds.map (fun k => windowSum 500 evs lo hi k))
  let conc := if name == "__inbound__" then openInbound sp else openConc sp name
  if obsField obs "s" != s then some s!"node {name} totals {obsField obs "s"} differ from the entries' history {s}"
  else if obsField obs "conc" != toString conc then some s!"node {name} in-flight {obsField obs "conc"} differs from the number of open passed entries {conc}"
  else if obsField obs "m" != toString (windowMinRt 500 evs lo hi) then some s!"node {name} min rt {obsField obs "m"} differs from the history {windowMinRt 500 evs lo hi}"
  else none

partial def stepCase (st : St) (v : Verdict) (i : Nat) (opText obs : String) : St × Verdict :=
  let op := Op.parse opText
  let bad (m : String) : St × Verdict := (st, v.setDiff s!"step={i} {m} [{opText}]")
  let w := st.w
  let sp := st.sp
  match op.name with
  | "clock" =>
    match (obsField obs "t").toNat? with
    | some t => ({ st with w := { w with nowNs := t }, sh := { st.sh with nowNs := t } }, v)
    | none => bad "bad-obs"
  | "note" =>
    let v := v.expect i opText "ok" obs
    match op.get? "phase" with
    | some "end" =>
      (match sp.phase with
      | none => (st, v)
      | some (kind, q, p, c, per, start) =>
        let t := w.nowMs
        -- tokens admitted per calendar second fully inside the phase
        let s0 := (start + 999) / 1000
        let s1 := t / 1000
        let secs := (List.range (s1 - s0)).map (fun k => s0 + k)
        let A := secs.map (fun s => ((sp.admitted.filter (fun a => a.2.1 / 1000 == s)).map (fun a => a.2.2.1)).sum)
        let first := ((sp.admitted.filter (fun a => start ≤ a.2.1 && a.2.1 < (start / 1000 + 1) * 1000)).map (fun a => a.2.2.1)).sum
        let rec mono : List Nat → Bool
          | a :: b :: rest => (b + per ≥ a) && mono (b :: rest)
          | _ => true
        let v := if kind == "sat" then
            let v := if !mono A then v.setViol s!"step={i} warm-up: per-second admissions {A} decrease under saturating demand" else v
            let upTo := A.take (2 * p + 2)
            let v := if A.length ≥ 2 * p + 2 && !(upTo.any (fun a => a + per ≥ q)) then
                v.setViol s!"step={i} warm-up: allowance did not reach q={q} within 2p+2={2*p+2} seconds: {A}" else v
            -- cold start: tokens admitted before the first calendar-second boundary of the phase stay at the cold rate
            let v := if first * c > q + (per + 1) * c then v.setViol s!"step={i} warm-up: cold start admitted {first} before the first second boundary, far above q/c={q / c}" else v
            v.addTag "warmup-saturating"
          else
            if first * c > q + (per + 1) * c then v.setViol s!"step={i} warm-up: after an idle period of at least 2p seconds the rule is not cold again: {first} admitted before the first second boundary, q/c={q / c}"
            else v.addTag "warmup-cold-again"
        ({ st with sp := { sp with phase := none } }, v))
    | some kind =>
      (match op.nat "q", op.nat "p", op.nat "c", op.nat "per" with
      | .ok q, .ok p, .ok c, .ok per => ({ st with sp := { sp with phase := some (kind, q, p, c, per, w.nowMs) } }, v)
      | _, _, _, _ => (st, v))
    | none => (st, v)
  | "adv" =>
    match op.natD "ns" 0, op.natD "ms" 0 with
    | .ok ns, .ok ms => ({ st with w := { w with nowNs := w.nowNs + ns + ms * 1000000 }, sh := { st.sh with nowNs := st.sh.nowNs + ns + ms * 1000000 } }, v.expect i opText "ok" obs)
    | _, _ => bad "bad-op"
  | "flow.loadall" | "hs.loadall" | "br.loadall" =>
    -- one call replaces the rules of every resource of the family: treated resource by resource
    let fam := (op.name.splitOn ".").headD ""
    let items := (op.list "rules").filterMap (fun it => splitFirst it "/")
    let held := (listOf (obsField obs "held") "|").filterMap (fun h => splitFirst h ":")
    let heldKey := if fam == "br" then "breakers" else "ctrls"
    let v := v.addTag "load-all"
    held.foldl (fun (acc : St × Verdict) (h : String × String) =>
      let specs := ",".intercalate ((items.filter (fun it => it.1 == h.1)).map (·.2))
      stepCase acc.1 acc.2 i s!"{fam}.load res={h.1} rules={specs}" s!"ret=- {heldKey}={h.2}") (st, v)
  | "flow.load" =>
    match op.str "res", parseFlowRules (op.list "rules") with
    | .ok res, .ok rules =>
      let ids := listOf (obsField obs "ctrls")
      match adoptOrder (·.id) (fun (c : FlowCtrl) => c.id) (fun (r : FlowSpec) (c : FlowCtrl) => match c.spec with | some s => r.eqv s | none => false)
          flowEqv rules (w.ctrls res) ids with
      | none =>
        -- the Spec side goes on with the rules as given: a changed rule must take effect on the very next entry
        let same := msetEq (fun (r : FlowSpec) (c : FlowCtrl) => match c.spec with | some s => r.eqv s | none => false) rules (st.sh.ctrls res)
        let st := noteLoad (noteLoad st ("flow/" ++ res)) ("flow/" ++ res)
        ({ st with w := w.loadFlow res rules, sh := if same then st.sh else st.sh.loadFlow res rules, sp := { sp with other := res :: sp.other } },
          v.setDiff s!"step={i} op=[{opText}] controllers held by the implementation cannot result from the loaded rules: [{obs}]")
      | some rules' =>
        let w' := w.loadFlow res rules'
        let v := if (w'.ctrls res).map (·.id) != ids then
            v.setDiff s!"step={i} op=[{opText}] model holds controllers {(w'.ctrls res).map (·.id)}, implementation {ids}" else v
        -- which statistic each controller got (`generate_stat_for`; Lean: `flowStatNew` / `flow_stat_is_world_stat`): the resource
        -- node's windows ("g": default metric or a reader over the global window) or its own array ("p"; also the no-op statistic)
        let kinds := (w'.ctrls res).map (fun c => match c.stat with | .global _ => "g" | _ => "p")
        let v := if obsField obs "stats" != "" && (w'.ctrls res).map (·.id) == ids && kinds != listOf (obsField obs "stats") then
            v.setDiff s!"step={i} op=[{opText}] model gives the controllers the statistics {kinds} (g = the resource node's windows, p = an own array), implementation {obsField obs "stats"}" else v
        -- shadow: a reload of an equal rule set (ids and order aside) is left out
        let same := msetEq (fun (r : FlowSpec) (c : FlowCtrl) => match c.spec with | some s => r.eqv s | none => false) rules' (st.sh.ctrls res)
        let sh' := if same then st.sh else st.sh.loadFlow res rules'
        let v := if same && !(st.sh.ctrls res).isEmpty then v.addTag "reload-unchanged" else if st.loadedOnce.contains ("flow/" ++ res) then v.addTag "reload-changed" else v
        let st := noteLoad st ("flow/" ++ res)
        let isRe := st.reloaded.contains ("flow/" ++ res)
        -- the held ids label the rules (a reused controller keeps the id of the rule it was first built for)
        let labelled := (rules'.zip ids).map (fun p => ({ p.1 with id := p.2 } : FlowSpec))
        let plain := labelled.all (fun r => !r.warmUp && !r.throttling)
        let srules := (labelled.filter (fun r => !r.warmUp && !r.throttling)).map (fun r => let g := ruleGeometry r.ivl
          -- an unchanged private-window rule keeps its window (and its `since`)
          let old := ((World.lookup sp.flow res).getD []).find? (fun o => o.thr == r.thr && o.L == g.1 && o.W == g.2.1)
          ({ id := r.id, thr := r.thr, L := g.1, W := g.2.1, priv := g.2.2, since := match old with | some o => o.since | none => sp.seq } : SRule))
        let sp := if plain && !isRe then sp else { sp with other := res :: sp.other }
        let sp := if !isRe && !labelled.isEmpty && labelled.all (fun r => r.throttling && !r.warmUp) then { sp with thrN := World.update sp.thrN res labelled }
          else { sp with thrN := sp.thrN.filter (fun p => p.1 != res) }
        let v := if labelled.any (·.throttling) then v.addTag "flow-throttling" else v
        let v := if labelled.any (·.warmUp) then v.addTag "flow-warmup" else v
        let sp := match labelled with
          | [r] => if !isRe && r.warmUp && !r.throttling && r.ivl == 0 then
              { sp with warm := World.update sp.warm res (r.thr.toNatFloor, (if r.coldFactor ≤ 1 then 3 else r.coldFactor), r.period) }
              else { sp with warm := sp.warm.filter (fun p => p.1 != res) }
          | _ => { sp with warm := sp.warm.filter (fun p => p.1 != res) }
        let v := if srules.any (·.priv) then v.addTag "private-window" else v
        let v := if srules.any (fun r => !r.priv && r.W != 1000) then v.addTag "reused-global-window" else v
        let v := if srules.length > 1 then v.addTag "several-rules" else v
        ({ st with w := w', sh := sh', sp := { sp with flow := World.update sp.flow res srules } }, v)
    | _, _ => bad "bad-op"
  | "iso.load" =>
    match op.str "res", parseIsoRules (op.list "rules") with
    | .ok res, .ok rules =>
      let ids := listOf (obsField obs "rules")
      if !heldOk (·.id) isoEqv rules ids then
        (st, v.setDiff s!"step={i} op=[{opText}] rules held by the implementation are not the loaded rules: [{obs}]")
      else
        let rules' := reorder (·.id) rules ids
        ({ st with w := w.loadIso res rules', sh := st.sh.loadIso res rules', sp := { sp with iso := World.update sp.iso res rules' } }, v.addTag "isolation")
    | _, _ => bad "bad-op"
  | "sys.load" =>
    match parseSysRules (op.list "rules") with
    | .ok rules =>
      let ids := listOf (obsField obs "rules")
      if !heldOk (·.id) sysEqv rules ids then
        (st, v.setDiff s!"step={i} op=[{opText}] rules held by the implementation are not the loaded rules: [{obs}]")
      else
        let rules' := reorder (·.id) rules ids
        let v := if rules'.length < rules.length then v.addTag "equal-rule-kept-once" else v
        let v := if rules'.any (·.bbr) then v.addTag "bbr-rule" else v
        ({ st with w := { w with sys := rules' }, sh := { st.sh with sys := rules' }, sp := { sp with sys := rules' } }, v.addTag "system-rules")
    | _ => bad "bad-op"
  | "sys.set" =>
    let getF := fun (k : String) (d : F64) => match op.get? k with
      | some x => (match parseFrac k x with | .ok f => F64.roundDiv f.num f.den | .error _ => d)
      | none => d
    let l := getF "load" w.load
    let c := getF "cpu" w.cpu
    ({ st with w := { w with load := l, cpu := c }, sh := { st.sh with load := l, cpu := c }, sp := { sp with load := l, cpu := c } }, v.expect i opText "ok" obs)
  | "hs.load" =>
    match op.str "res", parseHsRules (op.list "rules") with
    | .ok res, .ok rules =>
      let ids := listOf (obsField obs "ctrls")
      match adoptOrder (·.id) (fun (c : HsCtrl) => c.rule.id) (fun (r : HsRule) (c : HsCtrl) => World.hsRuleEqv r c.rule) hsEqv rules (w.hsCtrls res) ids with
      | none =>
        let same := msetEq (fun (r : HsRule) (c : HsCtrl) => World.hsRuleEqv r c.rule) rules (st.sh.hsCtrls res)
        let st := noteLoad (noteLoad st ("hs/" ++ res)) ("hs/" ++ res)
        ({ st with w := w.loadHs res rules, sh := if same then st.sh else st.sh.loadHs res rules,
                   sp := { sp with other := res :: sp.other, hs := sp.hs.filter (fun p => p.1 != res) } },
          v.setDiff s!"step={i} op=[{opText}] controllers held by the implementation cannot result from the loaded rules: [{obs}]")
      | some rules' =>
        let w' := w.loadHs res rules'
        let v := if (w'.hsCtrls res).map (·.rule.id) != ids then
            v.setDiff s!"step={i} op=[{opText}] model holds controllers {(w'.hsCtrls res).map (·.rule.id)}, implementation {ids}" else v
        let same := msetEq (fun (r : HsRule) (c : HsCtrl) => World.hsRuleEqv r c.rule) rules' (st.sh.hsCtrls res)
        let sh' := if same then st.sh else st.sh.loadHs res rules'
        let v := if same && !(st.sh.hsCtrls res).isEmpty then v.addTag "reload-unchanged" else if st.loadedOnce.contains ("hs/" ++ res) then v.addTag "reload-changed" else v
        let st := noteLoad st ("hs/" ++ res)
        let isRe := st.reloaded.contains ("hs/" ++ res)
        let labelled := (rules'.zip ids).map (fun p => ({ p.1 with id := p.2 } : HsRule))
        let v := if labelled.any (fun r => !r.specific.isEmpty) then v.addTag "hotspot-override" else v
        let v := if labelled.any (fun r => r.maxCap > 0) then v.addTag "hotspot-small-capacity" else v
        -- the isolated-reference Spec presumes no eviction and a single load
        -- (a capacity of 20000 or more is as good as none for the handful of values a case uses - the one case that opens more than
        -- 20000 values stays below its rule's capacity)
        let sp := if !isRe && labelled.all (fun r => r.maxCap == 0 || r.maxCap ≥ 20000) then { sp with hs := World.update sp.hs res labelled }
          else { sp with hs := sp.hs.filter (fun p => p.1 != res) }
        ({ st with w := w', sh := sh', sp := { sp with other := res :: sp.other } }, v.addTag "hotspot-rules")
    | _, _ => bad "bad-op"
  | "br.load" =>
    match op.str "res", parseBrRules (op.list "rules") with
    | .ok res, .ok rules =>
      let ids := listOf (obsField obs "breakers")
      match adoptOrder (·.id) (fun (b : Breaker) => b.rule.id) (fun (r : BRule) (b : Breaker) => World.brRuleEqv r b.rule) brEqv rules (w.breakers res) ids with
      | none =>
        let same := msetEq (fun (r : BRule) (b : Breaker) => World.brRuleEqv r b.rule) rules (st.sh.breakers res)
        let st := noteLoad (noteLoad st ("br/" ++ res)) ("br/" ++ res)
        ({ st with w := w.loadBr res rules, sh := if same then st.sh else st.sh.loadBr res rules,
                   sp := { sp with other := res :: sp.other, brs := sp.brs.filter (fun p => p.1 != res) } },
          v.setDiff s!"step={i} op=[{opText}] breakers held by the implementation cannot result from the loaded rules: [{obs}]")
      | some rules' =>
        let w' := w.loadBr res rules'
        let v := if (w'.breakers res).map (·.rule.id) != ids then
            v.setDiff s!"step={i} op=[{opText}] model holds breakers {(w'.breakers res).map (·.rule.id)}, implementation {ids}" else v
        let same := msetEq (fun (r : BRule) (b : Breaker) => World.brRuleEqv r b.rule) rules' (st.sh.breakers res)
        let sh' := if same then st.sh else st.sh.loadBr res rules'
        let v := if same && !(st.sh.breakers res).isEmpty then v.addTag "reload-unchanged" else if st.loadedOnce.contains ("br/" ++ res) then v.addTag "reload-changed" else v
        let st := noteLoad st ("br/" ++ res)
        let isRe := st.reloaded.contains ("br/" ++ res)
        let labelled := (rules'.zip ids).map (fun p => ({ p.1 with id := p.2 } : BRule))
        let sbs : List SBreaker := labelled.map (fun r => { rule := r })
        let sp := if isRe then { sp with brs := sp.brs.filter (fun p => p.1 != res) } else { sp with brs := World.update sp.brs res sbs }
        ({ st with w := w', sh := sh', sp := { sp with other := res :: sp.other } }, v.addTag "breaker-rules")
    | _, _ => bad "bad-op"
  | "br.state" =>
    match op.str "res" with
    | .ok res =>
      let m := ",".intercalate ((w.breakers res).map (fun b => s!"{b.rule.id}:{b.state.toStr}"))
      let v := v.expect i opText s!"states={m}" obs
      let v := match World.lookup sp.brs res with
        | some sbs =>
          let sm := ",".intercalate (sbs.map (fun b => s!"{b.rule.id}:{b.state.toStr}"))
          if s!"states={sm}" != obs then v.setViol s!"step={i} breaker states {obs} differ from the state machine's {sm}" else v
        | none => v
      -- transparency (C11): the states are those of the history without the reloads of unchanged rules (ids aside)
      let v := if st.reloaded.contains ("br/" ++ res) then
          let states := fun (l : List String) => l.map (fun x => ((x.splitOn ":").getLastD ""))
          let shS := (st.sh.breakers res).map (fun b => b.state.toStr)
          let implS := states (listOf (obsField obs "states"))
          if shS != implS then v.setViol s!"step={i} reload not transparent: breaker states {implS}, without the reloads of unchanged rules {shS}" else v.addTag "transparent-checked"
        else v
      (st, v)
    | _ => bad "bad-op"
  | "build" =>
    match op.nat "e", op.str "res", op.natD "batch" 1 with
    | .ok eid, .ok res, .ok batch =>
      let inbound := op.get? "dir" == some "in"
      let args : Option (List String) := (op.get? "args").map (fun a => listOf a)
      let atts : Option (List (String × String)) := (op.get? "atts").map (fun a =>
        (listOf a).filterMap (fun kv => splitFirst kv ":"))
      let t := w.nowMs
      let (w', r) := w.build eid res batch inbound args atts
      let mobs := renderBuild r ++ s!" dt={w'.nowNs - w.nowNs}" ++ evStr (w'.log.drop w.log.length)
      let v := v.expect i opText mobs obs
      let obsFull := obs
      let obs := if obsFull.startsWith "pass" then "pass" else obsFull
      let v := if sp.other.contains res then v else
        match specBuild sp res t batch inbound obs with | some m => v.setViol s!"step={i} {m}" | none => v
      -- warm-up Spec: never more than q per statistic interval; a rejection only above the cold rate q/c
      let v := match World.lookup sp.warm res with
        | some (q, c, _) =>
          if !(w.isoRules res).isEmpty || !(w.hsCtrls res).isEmpty || !(w.breakers res).isEmpty || (!w.sys.isEmpty && inbound) then v else
          let hi := t - t % 500
          let inWinTok := ((sp.admitted.filter (fun a => a.1 == res && hi - 500 ≤ a.2.1 - a.2.1 % 500 && a.2.1 - a.2.1 % 500 ≤ hi)).map (fun a => a.2.2.1)).sum
          if obs == "pass" then
            if inWinTok + batch > q then v.setViol s!"step={i} warm-up: {inWinTok}+{batch} tokens admitted in one statistic interval, above q={q}" else v
          else if obsField obs "type" == "Flow" then
            if (inWinTok + batch) * c < q then v.setViol s!"step={i} warm-up: rejected at {inWinTok}+{batch} tokens in the interval, below the cold rate q/c={q}/{c}" else v.addTag "warmup-reject"
          else v
        | none => v
      -- circuit-breaker Spec
      let (sp, v) : SpecSt × Verdict := match World.lookup sp.brs res with
        | none => (sp, v)
        | some sbs =>
          let dtObs := (obsField obsFull "dt").toNat?.getD 0
          let nowB := (w.nowNs + dtObs) / 1000000
          let (sbs1, refused, ev1, probes) := specBrEnter sbs nowB
          let blockedObs := obs != "pass"
          -- a probe whose entry is rejected (by this or any other rule) sends its breaker back to Open
          let (sbs2, ev2) := if blockedObs then
              sbs1.foldl (fun (acc : List SBreaker × List BEvent) (b : SBreaker) =>
                if probes.contains b.rule.id && b.state == BState.halfOpen then
                  (acc.1 ++ [{ b with state := BState.opn }], acc.2 ++ [(⟨.opn, .halfOpen, b.rule.id, "1"⟩ : BEvent)])
                else (acc.1 ++ [b], acc.2)) ([], [])
            else (sbs1, [])
          let expEv := evStr (ev1 ++ ev2)
          let obsEv := let e := obsField obsFull "ev"; if e == "" then "" else " ev=" ++ e
          let v := if refused && !blockedObs then v.setViol s!"step={i} breaker: request admitted while a breaker is Open before its retry deadline or Half-Open"
            else if refused && obsField obs "type" != "CircuitBreaking" then v.setViol s!"step={i} breaker: refusal reported with block type {obsField obs "type"}"
            else if !refused && obsField obs "type" == "CircuitBreaking" then v.setViol s!"step={i} breaker: request rejected although every breaker is Closed or its retry deadline has passed"
            else if expEv != obsEv then v.setViol s!"step={i} breaker: notifications [{obsEv}] differ from the state machine's [{expEv}]"
            else v
          let v := if refused then v.addTag "breaker-reject" else v
          let v := if !probes.isEmpty then v.addTag "breaker-probe" else v
          let v := if !ev2.isEmpty then v.addTag "breaker-probe-rejected" else v
          ({ sp with brs := World.update sp.brs res sbs2,
                     brHooks := if blockedObs then sp.brHooks else (eid, probes) :: sp.brHooks }, v)
      -- flow throttling Spec, when the resource carries only direct/throttling flow rules and nothing else
      let (sp, v) : SpecSt × Verdict := match World.lookup sp.thrN res with
        | some rs =>
          -- a request the Spec cannot judge (another family may reject it) also cannot be tracked: the throttling Spec of this
          -- resource ends here (its schedule would be out of date afterwards)
          if !(w.isoRules res).isEmpty || !(w.hsCtrls res).isEmpty || !(w.breakers res).isEmpty || (!w.sys.isEmpty && inbound) then
            ({ sp with thrN := sp.thrN.filter (fun p => p.1 != res) }, v) else
          let dtObs := (obsField obsFull "dt").toNat?.getD 0
          let (sp, m) := specThrottleN sp res rs w.nowNs batch obs dtObs
          let v := match m with | some m => v.setViol s!"step={i} flow throttling: {m}" | none => v
          let v := if dtObs > 0 then v.addTag "flow-wait" else v
          let v := if obs != "pass" then v.addTag "flow-throttle-reject" else v
          (sp, v)
        | none => (sp, v)
      -- hotspot Spec (isolated per-value references), when the resource carries only hotspot rules
      let hasHs := !((World.lookup sp.hs res).getD []).isEmpty
      let onlyHs := hasHs && (w.ctrls res).isEmpty && (w.isoRules res).isEmpty && (w.breakers res).isEmpty && (w.sys.isEmpty || !inbound)
      let (sp, hx) := if hasHs then hsExpect sp res w.nowNs batch args atts else (sp, {})
      let v := if !onlyHs then v else
        let dtObs := (obsField obsFull "dt").toNat?.getD 0
        let v := match hx.msg with | some m => v.setViol s!"step={i} hotspot: {m}" | none => v
        let v := match hx.block with
          | some (rid, snap) =>
            if obs == "pass" then v.setViol s!"step={i} hotspot: admitted although value's own bucket/cap for rule {rid} refuses it"
            else if obsField obs "type" != "HotSpotParamFlow" then v.setViol s!"step={i} hotspot: rejection reported with block type {obsField obs "type"} (expected HotSpotParamFlow)"
            else if obsField obs "rule" != rid then v.setViol s!"step={i} hotspot: block names rule {obsField obs "rule"}, the refusing rule is {rid}"
            else if obsField obs "snap" != toString snap then v.setViol s!"step={i} hotspot: snapshot {obsField obs "snap"} differs from {snap}"
            else v.addTag "hotspot-block"
          | none =>
            if obs != "pass" then v.setViol s!"step={i} hotspot: rejected although every value's own bucket/cap admits the request: {obs}"
            else v
        let v := if dtObs < hx.sleepNs then v.setViol s!"step={i} hotspot throttling: caller released after {dtObs} ns, scheduled wait is {hx.sleepNs} ns"
          else if dtObs > hx.sleepNs then v.setViol s!"step={i} hotspot throttling: caller held {dtObs} ns, scheduled wait is {hx.sleepNs} ns" else v
        if hx.sleepNs > 0 then v.addTag "hotspot-wait" else v
      let v := if obs == "pass" then v.addTag "pass" else if obsField obs "type" == "Flow" then v.addTag "flow-block"
        else if obsField obs "type" == "SystemFlow" then v.addTag s!"system-block" else v.addTag "other-block"
      let v := if obs == "pass" && inbound && !sp.sys.isEmpty then v.addTag "system-pass" else v
      let v := if !inbound && !sp.sys.isEmpty && (sp.sys.any (fun r => (r.trips (specSysObs sp t)).1)) then v.addTag "outbound-while-tripping" else v
      let v := if t % 500 == 0 then v.addTag "arrival-on-boundary" else v
      let nodeNames := if inbound then [res, "__inbound__"] else [res]
      -- statistics are recorded after the checks, i.e. after any throttling sleep the implementation reports
      let tStat := (w.nowNs + ((obsField obsFull "dt").toNat?.getD 0)) / 1000000
      let sp := if obs == "pass" && hasHs then
          -- in-flight bookkeeping of the concurrency references
          let keys := ((World.lookup sp.hs res).getD []).filterMap (fun r =>
            if r.metric == .concurrency then (extractArgs r args atts).map (fun a => (refKey res r.id a, a)) else none)
          let sp := keys.foldl (fun (sp : SpecSt) ka =>
            match World.lookup sp.hsRef ka.1 with
            | some c => { sp with hsRef := World.update sp.hsRef ka.1 (c.concAdjust (some ka.2) true) }
            | none => sp) sp
          { sp with hsOpen := (eid, keys.map (fun ka => ka.1 ++ "\t" ++ ka.2)) :: sp.hsOpen }
        else sp
      let sp' := if obs == "pass" then
          { sp with admitted := (res, tStat, batch, sp.seq) :: sp.admitted, seq := sp.seq + 1,
                    events := nodeNames.map (fun nm => (nm, tStat, Ev.add .pass batch)) ++ sp.events,
                    open_ := (eid, res, batch, inbound, t) :: sp.open_ }
        else if obs.startsWith "blocked" then
          { sp with events := nodeNames.map (fun nm => (nm, tStat, Ev.add .block batch)) ++ sp.events }
        else sp
      -- transparency Spec (C11): the same request on the shadow history (reloads of unchanged rule sets left out) must be
      -- decided the same way, hold the caller equally long and announce the same breaker transitions
      let (sh', rsh) := st.sh.build eid res batch inbound args atts
      let touched := st.reloaded.any (fun k => k.endsWith ("/" ++ res))
      let v := if !touched then v else
        let shObs := (match rsh with | .pass => "pass" | .blocked ty _ _ => "blocked type=" ++ ty) ++ s!" dt={sh'.nowNs - st.sh.nowNs}" ++ evStr (sh'.log.drop st.sh.log.length)
        let implObs := (if obs == "pass" then "pass" else "blocked type=" ++ obsField obs "type") ++ s!" dt={obsField obsFull "dt"}" ++
          (let e := obsField obsFull "ev"; if e == "" then "" else " ev=" ++ e)
        -- notifications name the rule id the breaker was first built for; compare them without the ids
        let strip := fun (x : String) => "|".intercalate ((x.splitOn "|").map (fun (e : String) => match e.splitOn ":" with | [a, _, c] => a ++ ":" ++ c | _ => e))
        if strip shObs != strip implObs then v.setViol s!"step={i} reload not transparent / changed rule not in effect: with the unchanged-rule reloads left out and the changed rules applied this request gives [{shObs}], the implementation gave [{implObs}]"
        else v.addTag "transparent-checked"
      -- keep the shadow on the implementation's clock
      let sh' := { sh' with nowNs := w'.nowNs }
      ({ st with w := w', sp := sp', sh := sh' }, v)
    | _, _, _ => bad "bad-op"
  | "exit" =>
    match op.nat "e" with
    | .ok eid =>
      let t := w.nowMs
      let err := op.get? "err" == some "1"
      match w.exit eid err with
      | some w' =>
        let v := v.expect i opText ("ok" ++ evStr (w'.log.drop w.log.length)) obs
        let (sp, v) : SpecSt × Verdict := match sp.open_.find? (fun e => e.1 == eid) with
          | some (_, res, _, _, start) =>
            (match World.lookup sp.brs res with
            | none => (sp, v)
            | some sbs =>
              let (sbs', evs) := sbs.foldl (fun (acc : List SBreaker × List BEvent) (b : SBreaker) =>
                let (b', ev) := b.complete t (t - start) err
                (acc.1 ++ [b'], acc.2 ++ ev)) ([], [])
              let expEv := evStr evs
              let obsEv := let e := obsField obs "ev"; if e == "" then "" else " ev=" ++ e
              let v := if expEv != obsEv then v.setViol s!"step={i} breaker: notifications on completion [{obsEv}] differ from the state machine's [{expEv}]" else v
              let v := if evs.any (fun (e : BEvent) => e.to_ == BState.opn && e.prev == BState.closed) then v.addTag "breaker-open" else v
              let v := if evs.any (fun (e : BEvent) => e.to_ == BState.closed) then v.addTag "breaker-close" else v
              let v := if evs.any (fun (e : BEvent) => e.to_ == BState.opn && e.prev == BState.halfOpen) then v.addTag "breaker-reopen" else v
              ({ sp with brs := World.update sp.brs res sbs' }, v))
          | none => (sp, v)
        let sp := match sp.hsOpen.find? (fun e => e.1 == eid) with
          | some (_, keys) =>
            let sp := keys.foldl (fun (sp : SpecSt) (ka : String) =>
              match ka.splitOn "\t" with
              | [k, a] => (match World.lookup sp.hsRef k with
                | some c => { sp with hsRef := World.update sp.hsRef k (c.concAdjust (some a) false) }
                | none => sp)
              | _ => sp) sp
            { sp with hsOpen := sp.hsOpen.filter (fun e => e.1 != eid) }
          | none => sp
        let sp' := match sp.open_.find? (fun e => e.1 == eid) with
          | some (_, res, batch, inbound, start) =>
            let nodeNames := if inbound then [res, "__inbound__"] else [res]
            { sp with open_ := sp.open_.filter (fun e => e.1 != eid),
                      events := (nodeNames.map (fun nm => [(nm, t, Ev.add .complete batch), (nm, t, Ev.add .rt (t - start))])).flatten ++ sp.events }
          | none => sp
        let (sh', v) := match st.sh.exit eid err with
          | some sh' =>
            let touched := match w.entries.find? (fun (e : Nat × Entry) => e.1 == eid) with
              | some (_, e) => st.reloaded.any (fun k => k.endsWith ("/" ++ e.res))
              | none => false
            let strip := fun (x : String) => "|".intercalate ((x.splitOn "|").map (fun (e : String) => match e.splitOn ":" with | [a, _, c] => a ++ ":" ++ c | _ => e))
            let shEv := evStr (sh'.log.drop st.sh.log.length)
            let implEv := let e := obsField obs "ev"; if e == "" then "" else " ev=" ++ e
            (sh', if touched && strip shEv != strip implEv then v.setViol s!"step={i} reload not transparent: completion announces [{implEv}], without the reloads of unchanged rules it announces [{shEv}]" else v)
          | none => (st.sh, v)
        ({ st with w := w', sp := sp', sh := sh' }, v.addTag "exit")
      | none => (st, v.expect i opText "noentry" obs)
    | _ => bad "bad-op"
  | "node" =>
    match op.str "res" with
    | .ok res =>
      let t := w.nowMs
      let mobs := if res == "__inbound__" then renderNode w.inbound t
        else match World.lookup w.nodes res with
          | some n => renderNode n t
          | none => "none"
      let v := v.expect i opText mobs obs
      let v := if obs != "none" then
          (match specNode sp res t obs with | some m => v.setViol s!"step={i} {m}" | none => v).addTag "node-read"
        else v
      (st, v)
    | _ => bad "bad-op"
  | "ctrl" =>
    match op.str "res" with
    | .ok res =>
      let t := w.nowMs
      let nd := w.node res
      let m := ",".intercalate ((w.ctrls res).map (fun c => s!"{c.id}:{c.curCount nd t}"))
      (st, v.expect i opText s!"sums={m}" obs)
    | _ => bad "bad-op"
  | _ => bad "bad-op"

def checkCase (lines : List (String × String)) : Verdict :=
  let rec go (st : St) (v : Verdict) (i : Nat) : List (String × String) → Verdict
    | [] => { v with steps := i }
    | (o, b) :: rest => let (st', v') := stepCase st v i o b; go st' v' (i + 1) rest
  go {} {} 0 lines

end Sentinel.DriverWorld
