import Sentinel.Proto
import Sentinel.Manager
/-! Driver for C10: manager model vs implementation, and the reference map evaluated on the implementation's reports. -/
namespace Sentinel.DriverC10
open Sentinel

def parseFam (s : String) : Except String Fam :=
  match s with
  | "flow" => .ok .flow | "br" => .ok .breaker | "hs" => .ok .hotspot | "iso" => .ok .isolation | "sys" => .ok .system
  | _ => .error s!"bad-op: family {s}"

def sysResOfKey (k : String) : String :=
  if k == "q5" || k == "q6" then "InboundQPS" else if k == "c3" then "Concurrency" else if k == "l5" || k == "xload" then "Load" else "AvgRT"

def parseRule (fam : Fam) (s : String) : Except String MRule :=
  match s.splitOn "@" with
  | [id, res, key] => .ok ⟨id, if fam == .system then sysResOfKey key else res, key⟩
  | _ => .error s!"bad-op: rule {s}"

def obsField (obs : String) (k : String) : String :=
  match (tokens obs).filterMap (fun t => match splitFirst t "=" with
      | some (a, b) => if a == k then some b else none
      | none => none) with
  | v :: _ => v
  | [] => ""

structure St where
  mgrs : List (Fam × Mgr) := []
  refs : List (Fam × RefMap) := []

def getMgr (st : St) (f : Fam) : Mgr := ((st.mgrs.find? (fun p => p.1 == f)).map (·.2)).getD { fam := f }
def getRef (st : St) (f : Fam) : RefMap := ((st.refs.find? (fun p => p.1 == f)).map (·.2)).getD {}
def setMgr (st : St) (f : Fam) (m : Mgr) : St := { st with mgrs := (f, m) :: st.mgrs.filter (fun p => p.1 != f) }
def setRef (st : St) (f : Fam) (m : RefMap) : St := { st with refs := (f, m) :: st.refs.filter (fun p => p.1 != f) }

/-- two ids for one rule (equal ignoring the id) somewhere in the list? -/
def hasTwins (l : List MRule) : Bool := l.any (fun a => l.any (fun b => a.id != b.id && a.sameRule b))

/-- reported rules (implementation) against a reference set: every reference rule must be reported up to rule equality,
every reported rule must be a reference rule (same id, resource, parameters) -/
def reportOk (reported ref : List MRule) : Bool :=
  reported.all (fun x => ref.any (fun r => x.sameRule r)) && ref.all (fun r => reported.any (fun x => x.sameRule r)) &&
  reported.all (fun x => (reported.filter (fun y => y.sameRule x)).length ≤ (ref.filter (fun y => y.sameRule x)).length)

def rulesStr (l : List MRule) : String := ",".intercalate (l.map MRule.toStr)

/-- flow / isolation thresholds encoded in the keys (`t5` → 5, `c2` → 2, `w9` → cold rate 3) -/
def limitOfKey (k : String) : Nat :=
  -- the digits after the family letter (`p5o`: 5 per its own window); keys with a letter suffix are variants of the same threshold
  if k == "w9" then 3 else ((String.ofList ((k.drop 1).toString.toList.takeWhile Char.isDigit)).toNat?).getD 0

def stepCase (st : St) (v : Verdict) (i : Nat) (opText obs : String) : St × Verdict :=
  let op := Op.parse opText
  let bad (m : String) : St × Verdict := (st, v.setDiff s!"step={i} {m} [{opText}]")
  if op.name == "clock" || op.name == "adv" then (st, v) else
  match (op.str "fam") >>= parseFam, op.str "op" with
  | .ok fam, .ok o =>
    let m := getMgr st fam
    let rf := getRef st fam
    let rules := (op.list "rules").mapM (parseRule fam)
    let res := (op.get? "res").getD ""
    match rules with
    | .error e => bad e
    | .ok rs =>
      let twins := hasTwins (rs ++ m.given ++ m.enforced)
      let v := if twins then v.addTag "two-ids-one-rule" else v
      let v := if rs.any (fun r => !r.valid) then v.addTag "invalid-rule" else v
      match o with
      | "loadall" =>
        let (m', ret) := m.loadAll rs
        let v := if twins then v else v.expect i opText ret.toStr obs
        let v := v.addTag (if ret == .bool false then "unchanged-reload" else "loadall")
        (setRef (setMgr st fam m') fam (rf.loadAll rs), v)
      | "loadres" =>
        let (m', ret) := m.loadRes res rs
        let v := if twins then v else v.expect i opText ret.toStr obs
        -- Spec: identical set => unchanged; an empty resource name is refused
        let v := if res == "" && obs != "ret=err" then v.setViol s!"step={i} load for an empty resource name was not refused: {obs}" else v
        (setRef (setMgr st fam m') fam (rf.loadRes res rs), v.addTag "loadres")
      | "append" =>
        match (op.str "rule") >>= parseRule fam with
        | .error e => bad e
        | .ok r =>
          let (m', ret) := m.append r
          -- a rule that is held under another id (also: that the reference holds under the id of an 'unchanged' reload which the
          -- manager rightly did not perform) makes the return value of this append a matter of which id survived: not judged
          let twins := hasTwins (r :: m.given ++ m.enforced ++ rf.rules)
          let v := if twins then v else v.expect i opText ret.toStr obs
          -- Spec on the return value: an already active rule is reported as not added; a new valid rule as added
          let v := if !twins && rf.rules.contains r && obs != "ret=false" then v.setViol s!"step={i} appending an already active rule returned {obs}"
            else if !twins && r.valid && !rf.rules.contains r && obs != "ret=true" then v.setViol s!"step={i} appending a new valid rule returned {obs}" else v
          (setRef (setMgr st fam m') fam (rf.append r), (v.addTag "append").addTag (if (Mgr.ofRes m.enforced r.res).isEmpty then "append-fresh" else "append-to-existing"))
      | "clear" => (setRef (setMgr st fam m.clear) fam rf.clear, v.expect i opText "ok" obs)
      | "clearres" => (setRef (setMgr st fam (m.clearRes res)) fam (rf.clearRes res), v.expect i opText "ok" obs)
      | "get" | "getres" | "enforced" =>
        let mine := if o == "get" then m.get else m.getRes res
        let want := if o == "get" then rf.rules else Mgr.ofRes rf.rules res
        match (listOf (obsField obs "rules")).mapM (parseRule fam) with
        | .error e => (st, v.setDiff s!"step={i} {e}")
        | .ok reported =>
          -- correspondence: model and implementation hold the same rules (up to the once-or-twice rule)
          let v := if !reportOk reported mine then v.setDiff s!"step={i} op=[{opText}] model=[{rulesStr mine}] impl=[{rulesStr reported}]" else v
          -- Spec: what is reported / enforced is exactly the reference map
          let v := if !reportOk reported want then
              v.setViol s!"step={i} {o}: reported/enforced rules [{rulesStr reported}] differ from the valid rules last given plus appends [{rulesStr want}]"
            else v
          (st, v.addTag "read")
      | "probe" =>
        -- admission decisions follow the enforced rules: single-token entries held open on a fresh window
        let active := Mgr.ofRes rf.rules res
        let lim := (active.map (fun r => limitOfKey r.key)).foldl min 12
        let lim := if active.isEmpty then 12 else lim
        let passed := (obsField obs "passed").toNat?.getD 0
        let v := if fam == .flow || fam == .isolation then
            (if passed != lim then v.setViol s!"step={i} probe: {passed} entries admitted, the enforced rules [{rulesStr active}] allow {lim}" else v).addTag "probe"
          else v
        let mlim := let a := m.getRes res; if a.isEmpty then 12 else (a.map (fun r => limitOfKey r.key)).foldl min 12
        let v := if (fam == .flow || fam == .isolation) && passed != mlim then v.setDiff s!"step={i} op=[{opText}] model admits {mlim} impl=[{obs}]" else v
        (st, v)
      | _ => bad "bad-op"
  | _, _ => bad "bad-op"

def checkCase (lines : List (String × String)) : Verdict :=
  let rec go (st : St) (v : Verdict) (i : Nat) : List (String × String) → Verdict
    | [] => { v with steps := i }
    | (o, b) :: rest => let (st', v') := stepCase st v i o b; go st' v' (i + 1) rest
  go {} {} 0 lines

end Sentinel.DriverC10
