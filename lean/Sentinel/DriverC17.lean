import Sentinel.Proto
import Sentinel.Config
/-! Driver for C17: check verdict, configuration seen by each thread, and window behaviour of nodes created afterwards
(ring model of C02 with the configured geometry). -/
namespace Sentinel.DriverC17
open Sentinel

def obsField (obs : String) (k : String) : String :=
  match (tokens obs).filterMap (fun t => match splitFirst t "=" with
      | some (a, b) => if a == k then some b else none
      | none => none) with
  | v :: _ => v
  | [] => ""

structure NodeSt where
  res : String
  g : Geo
  rd : Reader
  ring : BRing
  evs : List TEv := []        -- Spec side: the touches so far (time, amount), newest first
  cfg : StatCfg := StatCfg.default   -- the configuration in effect when the node was created
  deriving Inhabited

structure St where
  store : Store := {}
  nowMs : Nat := 0
  nodes : List NodeSt := []
  inited : Bool := false
  deriving Inhabited

def cfgStr (s : StatCfg) : String := s!"cfg={s.sct},{s.ivt},{s.sc},{s.iv}"

def parseCfg (op : Op) : Except String Cfg := do
  let nm (s : String) : String := if s == "-" then "" else s
  pure { version := nm ((op.get? "ver").getD "v1"), app := nm ((op.get? "app").getD "unknown_service"),
         maxFileCount := ← op.natD "mfc" 8, singleFileMaxSize := ← op.natD "sfs" 52428800,
         stat := ⟨← op.nat "sct", ← op.nat "ivt", ← op.nat "sc", ← op.nat "iv"⟩ }

def isAbnormal (obs : String) : Bool := obs.startsWith "panic" || obs == "hang" || obs == "crash"

def stepCase (st : St) (v : Verdict) (i : Nat) (opText obs : String) : St × Verdict :=
  let op := Op.parse opText
  let v := if isAbnormal obs then v.setViol s!"step={i} [{opText}] did not return normally: {obs}" else v
  if obs == "skipped" || isAbnormal obs then (st, v) else
  match op.name with
  | "clock" => ({ st with nowMs := ((obsField obs "t").toNat?.getD 0) / 1000000 }, v)
  | "adv" => ({ st with nowMs := st.nowMs + ((op.get? "ms").bind String.toNat?).getD 0 }, v)
  | "init" =>
    match parseCfg op with
    | .error e => (st, v.setDiff s!"step={i} {e}")
    | .ok c =>
      let (store', ok) := st.store.init 0 c
      let v := v.expect i opText (if ok then "ok" else "err") ((obs.splitOn " ").headD "")
      let v := v.addTag (match c.check with | none => "init:accepted" | some cl => s!"init:rejected:{cl}")
      let v := if (op.get? "by") == some "yaml" then v.addTag "by:yaml" else v.addTag "by:entity"
      -- Spec: a configuration whose default metric window cannot be served by the global window must be rejected
      let v := if checkReuse c.stat.sc c.stat.iv c.stat.sct c.stat.ivt ≠ 0 && obs == "ok" then
                 v.setViol s!"step={i} [{opText}] a configuration whose default metric window cannot be served by the global window was accepted" else v
      ({ st with store := store', inited := st.inited || ok }, v)
  | "cfg" =>
    let want := cfgStr (st.store.read 1).stat
    let th := (op.get? "thread").getD "main"
    let v := v.addTag s!"cfg:{th}"
    -- Spec: every thread sees the configuration in effect
    let v := if obs != want then v.setViol s!"step={i} [{opText}] thread '{th}' sees {obs}, the configuration in effect is {want}" else v
    (st, v)
  | "touch" =>
    let want := cfgStr st.store.cfg.stat
    let th := (op.get? "thread").getD "main"
    let res := (op.get? "res").getD ""
    let n := ((op.get? "n").bind String.toNat?).getD 1
    let v := v.addTag s!"touch:{th}"
    let v := if obsField obs "cfg" != obsField want "cfg" then
               v.setViol s!"step={i} [{opText}] thread '{th}' creates the node under {obs}, the configuration in effect is {want}" else v
    match nodeNew st.store.cfg.stat with
    | .error _ => (st, v.setDiff s!"step={i} [{opText}] model: node construction panics, implementation: {obs}")
    | .ok (g, rd) =>
      let node := ((st.nodes.find? (fun x => x.res == res)).getD ⟨res, g, rd, ringInit MetricBucket.zero g, [], st.store.cfg.stat⟩)
      let node := { node with evs := (st.nowMs, Ev.add .pass n) :: node.evs }
      match node.ring.record node.g st.nowMs (.add .pass n) with
      | none => (st, v.setDiff s!"step={i} [{opText}] model: bucket not writable")
      | some r' => ({ st with nodes := { node with ring := r' } :: st.nodes.filter (fun x => x.res != res) }, v)
  | "read" =>
    let res := (op.get? "res").getD ""
    match st.nodes.find? (fun x => x.res == res), op.nat "rsc", op.nat "riv" with
    | some node, .ok rsc, .ok riv =>
      let d := node.ring.sumWithTime node.g node.rd st.nowMs .pass
      let full := if checkReuse rsc riv node.g.n (node.g.n * node.g.L) = 0 then toString (node.ring.sumWithTime node.g ⟨rsc, riv⟩ st.nowMs .pass) else "err"
      -- `ResourceNode::max_avg` = peak bucket × sample_count / interval_ms × 1000, in the default reader's geometry
      let peak := node.ring.maxOfSingleBucket node.g node.rd st.nowMs .pass
      let maxavg := F64.mul (F64.div (F64.mul (F64.ofNat peak) (F64.ofNat node.rd.sc)) (F64.ofNat node.rd.iv)) (F64.ofNat 1000)
      -- `qps_previous`: the default window as it was one *metric* bucket (iv / sc of the configuration) ago
      let qp := node.ring.qpsPrevious node.g node.rd st.nowMs .pass
      let v := v.expect i opText s!"sum={d} full={full} maxavg={maxavg.toStr} qp={qp.toStr}" obs
      -- Spec, from the touches alone and the configured numbers: bucket length ivt/sct, default window iv, global window riv
      let L := node.cfg.ivt / node.cfg.sct
      let start := st.nowMs - st.nowMs % L
      let live := node.evs.filter (fun e => !(st.nowMs > e.1 - e.1 % L && st.nowMs - (e.1 - e.1 % L) > node.cfg.ivt))
      let sSum := windowSum L live (start - node.cfg.iv + L) start .pass
      let sFull := windowSum L live (start - riv + L) start .pass
      let inDef := live.filter (fun e => start - node.cfg.iv + L ≤ e.1 - e.1 % L && e.1 - e.1 % L ≤ start)
      let sPeak := inDef.foldl (fun acc e => max acc (windowSum L inDef (e.1 - e.1 % L) (e.1 - e.1 % L) .pass)) 0
      let sMax := F64.mul (F64.div (F64.mul (F64.ofNat sPeak) (F64.ofNat node.cfg.sc)) (F64.ofNat node.cfg.iv)) (F64.ofNat 1000)
      -- the previous window ends one configured metric bucket (iv / sc) before now; judged while all of it is still resident
      let tp := st.nowMs - node.cfg.iv / node.cfg.sc
      let startP := tp - tp % L
      let tlast := (node.evs.map (·.1)).foldl max 0
      let sQp := F64.div (F64.ofNat (windowSum L node.evs (startP - node.cfg.iv + L) startP .pass)) (F64.div (F64.ofNat node.cfg.iv) (F64.ofNat 1000))
      let qpJudged := node.cfg.iv ≤ startP && (tlast - tlast % L) < (startP - node.cfg.iv + L) + node.cfg.ivt
      let specObs := s!"sum={sSum} full={if full == "err" then "err" else toString sFull} maxavg={sMax.toStr} qp={if qpJudged then sQp.toStr else obsField obs "qp"}"
      let v := if specObs != obs then v.setViol s!"step={i} [{opText}] window geometry not as configured ({cfgStr node.cfg}): the touches so far give [{specObs}], the node reports [{obs}]" else v
      let v := if d == 0 && full != "0" && full != "err" then v.addTag "left-default-window" else v
      let v := if full == "0" then v.addTag "left-global-window" else v
      (st, v.addTag "read")
    | none, _, _ => (st, v.expect i opText "none" obs)
    | _, _, _ => (st, v.setDiff s!"step={i} bad read op")
  | _ => (st, v)

def checkCase (lines : List (String × String)) : Verdict :=
  let rec go (st : St) (v : Verdict) (i : Nat) : List (String × String) → Verdict
    | [] => { v with steps := i }
    | (o, obs) :: rest =>
      let (st', v') := stepCase st v i o obs
      go st' v' (i + 1) rest
  go {} {} 0 lines

end Sentinel.DriverC17
