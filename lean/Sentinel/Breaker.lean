import Sentinel.LeapArray
/-!
Model of `core/circuitbreaker/breaker/{mod,stat,slow_request,error_ratio,error_count}.rs`,
`circuitbreaker/slot.rs`, `stat_slot.rs` (C03). Sequential semantics.
-/
namespace Sentinel

inductive BState where
  | closed | halfOpen | opn
  deriving Repr, DecidableEq, Inhabited

def BState.toStr : BState → String
  | .closed => "Closed" | .halfOpen => "HalfOpen" | .opn => "Open"

inductive BStrategy where
  | slowRatio | errorRatio | errorCount
  deriving Repr, DecidableEq, Inhabited

/-- `breaker::stat::Counter` -/
structure BCounter where
  target : Nat := 0
  total : Nat := 0
  deriving Repr, DecidableEq, Inhabited

def BCounter.zero : BCounter := {}

structure BRule where
  id : String
  strategy : BStrategy
  retryMs : Nat
  minReq : Nat
  ivl : Nat               -- stat_interval_ms
  buckets : Nat           -- stat_sliding_window_bucket_count as given
  maxRt : Nat
  thr : F64
  deriving Repr, Inhabited

/-- `get_rule_stat_sliding_window_bucket_count` -/
def BRule.bucketCount (r : BRule) : Nat :=
  if r.buckets = 0 ∨ r.ivl % r.buckets ≠ 0 then 1 else r.buckets

def BRule.geo (r : BRule) : Geo := ⟨r.bucketCount, r.ivl / r.bucketCount⟩

/-- a state-change notification delivered to listeners -/
structure BEvent where
  to_ : BState
  prev : BState
  rule : String
  snap : String
  deriving Repr, DecidableEq, Inhabited

def BEvent.toStr (e : BEvent) : String := s!"{e.prev.toStr}>{e.to_.toStr}:{e.rule}:{e.snap}"

structure Breaker where
  rule : BRule
  state : BState := .closed
  nextRetry : Nat := 0
  ring : List (Slot BCounter)
  deriving Repr, Inhabited

def Breaker.new (r : BRule) : Breaker := { rule := r, ring := ringInit BCounter.zero r.geo }

namespace Breaker

/-- `try_pass` in the breaker slot. Returns (breaker', admitted, events, registersExitHook). -/
def tryPass (b : Breaker) (nowMs : Nat) : Breaker × Bool × List BEvent × Bool :=
  match b.state with
  | .closed => (b, true, [], false)
  | .halfOpen => (b, false, [], false)
  | .opn =>
    if nowMs ≥ b.nextRetry then
      ({ b with state := .halfOpen }, true, [⟨.halfOpen, .opn, b.rule.id, "-"⟩], true)
    else (b, false, [], false)

/-- the exit handler registered by `from_open_to_half_open`: a blocked probe sends the breaker back to Open
(the retry deadline is not renewed) -/
def rollback (b : Breaker) (blocked : Bool) : Breaker × List BEvent :=
  if blocked && b.state == .halfOpen then ({ b with state := .opn }, [⟨.opn, .halfOpen, b.rule.id, "1"⟩])
  else (b, [])

/-- sums over `all_counter()` = the slots that are not deprecated now -/
def totals (b : Breaker) (nowMs : Nat) : Nat × Nat :=
  foldSlots BCounter.zero b.rule.geo b.ring (validAt b.rule.geo nowMs)
    (fun (acc : Nat × Nat) c => (acc.1 + c.target, acc.2 + c.total)) (0, 0)

/-- `reset_metric`: zero the counters of every slot that is valid now (stamps stay) -/
def resetMetric (b : Breaker) (nowMs : Nat) : Breaker :=
  { b with ring := b.ring.map (fun s => if validAt b.rule.geo nowMs s.stamp then { s with val := BCounter.zero } else s) }

/-- rendering of an f64 snapshot as the harness prints it -/
def snapStr (x : F64) : String :=
  let s := x.toStr
  if s.endsWith "/1" then (s.dropEnd 2).toString else s

/-- does this completion count against the breaker: slow for the slow-ratio strategy, failed for the error strategies -/
def counts (b : Breaker) (rt : Nat) (err : Bool) : Bool :=
  match b.rule.strategy with
  | .slowRatio => decide (rt > b.rule.maxRt)
  | _ => err

/-- the ring after recording the completion in the current bucket (`none` if `current_counter()` failed) -/
def recorded (b : Breaker) (nowMs rt : Nat) (err : Bool) : Option (List (Slot BCounter)) :=
  ringWrite BCounter.zero b.rule.geo b.ring nowMs
    (fun c => { target := if b.counts rt err then c.target + 1 else c.target, total := c.total + 1 })

/-- has the threshold been met, given the window totals (target, total)? with the snapshot value reported -/
def thresholdMet (b : Breaker) (target total : Nat) : Bool × String :=
  match b.rule.strategy with
  | .errorCount => (decide (total ≥ b.rule.minReq) && decide (target ≥ b.rule.thr.toNatFloor), toString target)
  | _ =>
    let ratio := F64.div (F64.ofNat target) (F64.ofNat total)
    (decide (total ≥ b.rule.minReq) && !F64.lt ratio b.rule.thr, snapStr ratio)

/-- `on_request_complete(rt, err)` -/
def onComplete (b : Breaker) (nowMs rt : Nat) (err : Bool) : Breaker × List BEvent :=
  let hit := b.counts rt err
  match b.recorded nowMs rt err with
  | none => (b, [])          -- `current_counter()` failed: logged, nothing else happens
  | some ring' =>
    let b := { b with ring := ring' }
    let (target, total) := b.totals nowMs
    match b.state with
    | .halfOpen =>
      if hit then
        ({ b with state := .opn, nextRetry := nowMs + b.rule.retryMs }, [⟨.opn, .halfOpen, b.rule.id, "1"⟩])
      else
        ((({ b with state := .closed } : Breaker)).resetMetric nowMs, [⟨.closed, .halfOpen, b.rule.id, "-"⟩])
    | .closed =>
      let (trip, snap) := b.thresholdMet target total
      if trip then ({ b with state := .opn, nextRetry := nowMs + b.rule.retryMs }, [⟨.opn, .closed, b.rule.id, snap⟩])
      else (b, [])
    | .opn => (b, [])

end Breaker

/-- the breaker slot: breakers in order, stop at the first that refuses.
Returns (breakers', blocked, events, ids of breakers that registered an exit hook on this entry) -/
def brSlot : List Breaker → Nat → List Breaker × Bool × List BEvent × List String
  | [], _ => ([], false, [], [])
  | b :: rest, nowMs =>
    let (b', ok, ev, hook) := b.tryPass nowMs
    let hooks := if hook then [b.rule.id] else []
    if ok then
      let (rest', blocked, ev', hooks') := brSlot rest nowMs
      (b' :: rest', blocked, ev ++ ev', hooks ++ hooks')
    else (b' :: rest, true, ev, hooks)

end Sentinel
