import Sentinel.World
/-!
C20: the Tower middleware (`deal_with_sentinel!` in middleware/tower/src/lib.rs) on top of the sequential World model.
A request's future is polled by the caller; the inner service's outcome is one of four scripts.
-/
namespace Sentinel

/-- what the inner service does with a request it is given -/
inductive Outcome where
  | readyOk | readyErr | pendingOk | pendingErr
  deriving Repr, DecidableEq, Inhabited

def Outcome.isErr : Outcome → Bool
  | .readyErr | .pendingErr => true
  | _ => false

def Outcome.isReady : Outcome → Bool
  | .readyOk | .readyErr => true
  | _ => false

/-- what the caller of the middleware gets -/
inductive Reply where
  | ok            -- the inner service's response
  | innerErr      -- the inner service's error
  | fallback      -- the fallback's response to a rejected request
  | blockedErr    -- Sentinel's error for a rejected request without fallback
  deriving Repr, DecidableEq, Inhabited

structure Mw where
  w : World := {}
  inbound : Bool := true          -- ServiceRole::Server
  hasFallback : Bool := false
  innerCalls : Nat := 0           -- how often the inner service's `call` ran
  pending : List (Nat × String × Outcome) := []   -- admitted requests whose inner future is still pending
  deriving Inhabited

/-- completion of an admitted request's future: `fut.await`, then `entry.exit()` on both the `Ok` and the `Err` path -/
def Mw.complete (m : Mw) (id : Nat) (o : Outcome) : Mw × Reply :=
  ({ m with w := (m.w.exit id).getD m.w, pending := m.pending.filter (fun p => p.1 != id) },
   if o.isErr then .innerErr else .ok)

/-- `Service::call` followed by the first poll of the returned future -/
def Mw.call (m : Mw) (id : Nat) (res : String) (o : Outcome) : Mw × Option Reply :=
  match m.w.build id res 1 m.inbound with
  | (w', .pass) =>
    let m1 := { m with w := w', innerCalls := m.innerCalls + 1 }
    if o.isReady then
      let (m2, r) := m1.complete id o
      (m2, some r)
    else ({ m1 with pending := (id, res, o) :: m1.pending }, none)
  | (w', .blocked _ _ _) => ({ m with w := w' }, some (if m.hasFallback then .fallback else .blockedErr))

/-- a later poll of a pending request's future -/
def Mw.finish (m : Mw) (id : Nat) : Mw × Option Reply :=
  match m.pending.find? (fun p => p.1 == id) with
  | some (_, _, o) => let (m', r) := m.complete id o; (m', some r)
  | none => (m, none)

/-- the future dropped before completion: nothing runs any more (an `EntryStrongPtr` has no `Drop`), the admission stays -/
def Mw.dropFuture (m : Mw) (id : Nat) : Mw := { m with pending := m.pending.filter (fun p => p.1 != id) }

end Sentinel
