import Sentinel.Proto
import Sentinel.Tower
/-! Driver for C20: middleware model vs the real `SentinelService`; Spec on the implementation's trace. -/
namespace Sentinel.DriverC20
open Sentinel

def obsField (obs : String) (k : String) : String :=
  match (tokens obs).filterMap (fun t => match splitFirst t "=" with
      | some (a, b) => if a == k then some b else none
      | none => none) with
  | v :: _ => v
  | [] => ""

structure St where
  m : Mw := {}
  -- Spec side, from the implementation's own replies: requests currently admitted and not finished, per resource
  open_ : List (Nat × String) := []
  dropped : Bool := false
  innerSeen : Nat := 0
  deriving Inhabited

def replyStr : Option Reply → String
  | none => "pending" | some .ok => "ok" | some .innerErr => "innererr" | some .fallback => "fallback" | some .blockedErr => "blockederr"

def parseOutcome (s : String) : Outcome :=
  if s == "rok" then .readyOk else if s == "rerr" then .readyErr else if s == "pok" then .pendingOk else .pendingErr

def stepCase (st : St) (v : Verdict) (i : Nat) (opText obs : String) : St × Verdict :=
  let op := Op.parse opText
  let m := st.m
  let v := if obs.startsWith "panic" then v.setViol s!"step={i} [{opText}] panicked: {obs}" else v
  if obs.startsWith "panic" then (st, v) else
  match op.name with
  | "clock" =>
    match (obsField obs "t").toNat? with
    | some t => ({ st with m := { m with w := { m.w with nowNs := t } } }, v)
    | none => (st, v.setDiff s!"step={i} bad clock")
  | "adv" =>
    let ms := ((op.get? "ms").bind String.toNat?).getD 0
    ({ st with m := { m with w := { m.w with nowNs := m.w.nowNs + ms * 1000000 } } }, v)
  | "iso.load" =>
    let res := (op.get? "res").getD ""
    let thr := ((op.get? "thr").bind String.toNat?).getD 0
    ({ st with m := { m with w := m.w.loadIso res (if thr = 0 then [] else [⟨"iso", thr⟩]) } }, v.addTag "isolation-rule")
  | "flow.load" =>
    match (op.frac "thr") with
    | .ok f =>
      let res := (op.get? "res").getD ""
      let spec : FlowSpec := match (op.get? "maxq").bind String.toNat? with
        | some q => { id := "flow", thr := F64.roundDiv f.num f.den, ivl := 1000, throttling := true, maxQueueMs := q }
        | none => { id := "flow", thr := F64.roundDiv f.num f.den, ivl := 1000 }
      ({ st with m := { m with w := m.w.loadFlow res [spec] } }, v.addTag (if spec.throttling then "throttling-rule" else "flow-rule"))
    | .error e => (st, v.setDiff s!"step={i} {e}")
  | "svc" =>
    let inb := (op.get? "role") != some "client"
    let fb := (op.get? "fallback") == some "1"
    ({ st with m := { m with inbound := inb, hasFallback := fb } }, (v.addTag (if inb then "server" else "client")).addTag (if fb then "fallback" else "no-fallback"))
  | "call" =>
    match op.nat "id" with
    | .error e => (st, v.setDiff s!"step={i} {e}")
    | .ok id =>
      let res := (op.get? "res").getD ""
      let o := parseOutcome ((op.get? "o").getD "rok")
      let concBefore := (m.w.node res).conc
      let (m', r) := m.call id res o
      let model := s!"reply={replyStr r} inner={m'.innerCalls} conc={(m'.w.node res).conc} notready=0"
      let v := v.expect i opText model obs
      -- Spec on the implementation's own observations
      let v := if obsField obs "notready" != "0" then
                 v.setViol s!"step={i} [{opText}] the request was handed to an inner service instance that the middleware had not driven to readiness (not the service it wraps)" else v
      let reply := obsField obs "reply"
      let inner := (obsField obs "inner").toNat?.getD 0
      let conc := (obsField obs "conc").toNat?.getD 0
      let admitted := reply == "ok" || reply == "innererr" || reply == "pending"
      let v := v.addTag s!"reply:{reply}"
      let v := if o.isErr && admitted then v.addTag "inner-error-admitted" else v
      -- the inner service is called exactly once for an admitted request and never for a rejected one
      let v := if inner != st.innerSeen + (if admitted then 1 else 0) then
                 v.setViol s!"step={i} [{opText}] inner service called {inner - st.innerSeen} time(s) for a request that was {if admitted then "admitted" else "rejected"}" else v
      -- a rejected request gets the fallback response or an error
      let v := if !admitted && reply != (if m.hasFallback then "fallback" else "blockederr") then
                 v.setViol s!"step={i} [{opText}] rejected request answered with '{reply}'" else v
      -- release on every path: the in-flight count is the number of admitted, unfinished requests on the resource
      let open' := if reply == "pending" then (id, res) :: st.open_ else st.open_
      let expectConc := (open'.filter (fun p => p.2 == res)).length
      let v := if !st.dropped && conc != expectConc then
                 v.setViol s!"step={i} [{opText}] in-flight count of '{res}' is {conc} with {expectConc} request(s) in flight: an admission was not released (count before the call: {concBefore})" else v
      ({ st with m := m', open_ := open', innerSeen := inner }, v)
  | "finish" =>
    match op.nat "id" with
    | .error e => (st, v.setDiff s!"step={i} {e}")
    | .ok id =>
      let res := ((m.pending.find? (fun p => p.1 == id)).map (·.2.1)).getD ""
      let (m', r) := m.finish id
      let model := match r with
        | none => "none"
        | some _ => s!"reply={replyStr r} inner={m'.innerCalls} conc={(m'.w.node res).conc} notready=0"
      let v := v.expect i opText model obs
      let v := if obs != "none" && obsField obs "notready" != "0" then
                 v.setViol s!"step={i} [{opText}] the request was handed to an inner service instance that the middleware had not driven to readiness (not the service it wraps)" else v
      let sres := ((st.open_.find? (fun p => p.1 == id)).map (·.2)).getD ""
      let open' := st.open_.filter (fun p => p.1 != id)
      let conc := (obsField obs "conc").toNat?.getD 0
      let expectConc := (open'.filter (fun p => p.2 == sres)).length
      let v := if obs != "none" && !st.dropped && conc != expectConc then
                 v.setViol s!"step={i} [{opText}] in-flight count of '{sres}' is {conc} after the request finished ({obsField obs "reply"}), {expectConc} request(s) still in flight: the admission was not released" else v
      let v := if obs != "none" then v.addTag s!"finish:{obsField obs "reply"}" else v
      ({ st with m := m', open_ := open' }, v)
  | "drop" =>
    match op.nat "id" with
    | .error e => (st, v.setDiff s!"step={i} {e}")
    | .ok id =>
      let had := m.pending.any (fun p => p.1 == id)
      let res := ((m.pending.find? (fun p => p.1 == id)).map (·.2.1)).getD ""
      let m' := m.dropFuture id
      let model := if had then s!"dropped conc={(m'.w.node res).conc}" else "none"
      -- reported separately, not asserted: a dropped future leaks its admission
      ({ st with m := m', dropped := st.dropped || had }, (v.expect i opText model obs).addTag "future-dropped")
  | "conc" =>
    let res := (op.get? "res").getD ""
    (st, v.expect i opText s!"conc={(m.w.node res).conc}" obs)
  | _ => (st, v)

def checkCase (lines : List (String × String)) : Verdict :=
  let rec go (st : St) (v : Verdict) (i : Nat) : List (String × String) → Verdict
    | [] => { v with steps := i }
    | (o, obs) :: rest =>
      let (st', v') := stepCase st v i o obs
      go st' v' (i + 1) rest
  go {} {} 0 lines

end Sentinel.DriverC20
