import Sentinel.LeapArray
/-!
Sequential model of an entry's life through the global slot chain (DESIGN §5.3):
`EntryBuilder::build` = prepare (node) → checks system(1000) flow(2000) isolation(3000) hotspot(4000)
breaker(5000), all run, last blocked result wins → stat slots (node, flow-standalone, …);
blocked ⇒ internal exit without completion; `exit` = completion on the node (and inbound mirror).

This file: statistics node, reject-type flow control, isolation. Other families plug in their own
files (`Hotspot`, `Breaker`, `System`).
-/
namespace Sentinel

def globalGeo : Geo := ⟨20, 500⟩           -- DEFAULT_SAMPLE_COUNT_TOTAL × 500 ms = 10 s
def defaultReader : Reader := ⟨2, 1000⟩    -- DEFAULT_SAMPLE_COUNT, DEFAULT_INTERVAL_MS

/-- `ResourceNode`: global array + in-flight counter; `hist` is the ghost history of the array -/
structure Node where
  ring : BRing := ringInit MetricBucket.zero globalGeo
  conc : Nat := 0
  hist : List TEv := []
  deriving Repr, Inhabited

namespace Node
/-- `BucketLeapArray::add_count`/`update_concurrency`: an error from `get_bucket_of_time` is logged and ignored -/
def record (n : Node) (nowMs : Nat) (e : Ev) : Node :=
  match n.ring.record globalGeo nowMs e with
  | some r => { n with ring := r, hist := (nowMs, e) :: n.hist }
  | none => n

def addCount (n : Node) (nowMs : Nat) (k : Kind) (c : Nat) : Node := n.record nowMs (.add k c)

/-- `increase_concurrency`: `fetch_add(1) + 1` then `update_concurrency` on the array -/
def increaseConcurrency (n : Node) (nowMs : Nat) : Node :=
  ({ n with conc := n.conc + 1 }).record nowMs (.conc (n.conc + 1))

def decreaseConcurrency (n : Node) : Node := { n with conc := n.conc - 1 }

/-- `ResourceNodeStatSlot::record_pass_for` -/
def recordPass (n : Node) (nowMs batch : Nat) : Node := (n.increaseConcurrency nowMs).addCount nowMs .pass batch
/-- `record_block_for` -/
def recordBlock (n : Node) (nowMs batch : Nat) : Node := n.addCount nowMs .block batch
/-- `record_complete_for` -/
def recordComplete (n : Node) (nowMs batch rt : Nat) : Node :=
  ((n.addCount nowMs .rt rt).addCount nowMs .complete batch).decreaseConcurrency

def sum (n : Node) (rd : Reader) (nowMs : Nat) (k : Kind) : Nat := n.ring.sumWithTime globalGeo rd nowMs k
end Node

/-! ### flow control, reject type -/

/-- where a controller reads (and possibly writes) its statistics: `StandaloneStat` -/
inductive FlowStat where
  | global (rd : Reader)                                   -- reuse_global = true
  | priv (g : Geo) (ring : BRing) (rd : Reader) (hist : List TEv)   -- private BucketLeapArray + its reader
  deriving Repr, Inhabited

/-- `generate_stat_for` under the default configuration (global 20×500 ms, default metric 2×500 ms) -/
def flowStatFor (ivl : Nat) : FlowStat :=
  if ivl = 0 ∨ ivl = 1000 then .global defaultReader
  else
    let sc := if ivl > 500 ∧ ivl < 10000 ∧ ivl % 500 = 0 then ivl / 500 else 1
    if checkReuse sc ivl 20 10000 = 0 then .global ⟨sc, ivl⟩
    else .priv ⟨sc, ivl / sc⟩ (ringInit MetricBucket.zero ⟨sc, ivl / sc⟩) ⟨sc, ivl⟩ []

structure FlowCtrl where
  id : String
  thr : F64
  ivl : Nat
  stat : FlowStat
  deriving Repr, Inhabited

/-- `read_only_metric().sum(Pass)` of a controller -/
def FlowCtrl.curCount (c : FlowCtrl) (node : Node) (nowMs : Nat) : Nat :=
  match c.stat with
  | .global rd => node.sum rd nowMs .pass
  | .priv g ring rd _ => ring.sumWithTime g rd nowMs .pass

/-- `RejectChecker::do_check`: blocked iff `cur as f64 + batch as f64 > threshold`; the left side is the exact
integer `cur + batch` (modelling assumption: counts stay below 2^53, where `u64 → f64` is exact) -/
def FlowCtrl.blocks (c : FlowCtrl) (node : Node) (nowMs batch : Nat) : Bool :=
  F64.ltNat c.thr (c.curCount node nowMs + batch)

/-- the flow slot: controllers in order, stop at the first that blocks; result = (rule id, snapshot) -/
def flowCheck (ctrls : List FlowCtrl) (node : Node) (nowMs batch : Nat) : Option (String × Nat) :=
  match ctrls.find? (fun c => c.blocks node nowMs batch) with
  | some c => some (c.id, c.curCount node nowMs)
  | none => none

/-- `StandaloneStatSlot::on_entry_pass`: every private array records the pass -/
def FlowCtrl.recordPass (c : FlowCtrl) (nowMs batch : Nat) : FlowCtrl :=
  match c.stat with
  | .global _ => c
  | .priv g ring rd hist =>
    match ring.record g nowMs (.add .pass batch) with
    | some r => { c with stat := .priv g r rd ((nowMs, .add .pass batch) :: hist) }
    | none => c

/-! ### isolation -/

structure IsoRule where
  id : String
  thr : Nat
  deriving Repr, Inhabited

/-- isolation slot: first rule with `conc + batch > threshold` -/
def isoCheck (rules : List IsoRule) (node : Node) (batch : Nat) : Option (String × Nat) :=
  match rules.find? (fun r => node.conc + batch > r.thr) with
  | some r => some (r.id, node.conc)
  | none => none

/-! ### system protection -/

inductive SysMetric where
  | load | avgRt | concurrency | inboundQps | cpuUsage
  deriving Repr, DecidableEq, Inhabited

structure SysRule where
  id : String
  metric : SysMetric
  bbr : Bool            -- AdaptiveStrategy::BBR
  thr : F64
  deriving Repr, Inhabited

/-- what the system slot observes at a check: the global inbound statistics and the last load / CPU readings -/
structure SysObs where
  qps : F64
  conc : Nat
  avgRt : F64
  load : F64
  cpu : F64
  maxComplete : F64     -- `max_avg(Complete)`: best completed-per-second rate of a single bucket
  minRt : F64
  deriving Repr, Inhabited

/-- `check_bbr_simple` is *false* (i.e. the BBR condition holds) iff more than one inbound request is in flight and
their number exceeds the estimated capacity `max_complete * min_rt / 1000` -/
def bbrExceeded (o : SysObs) : Bool :=
  let conc := F64.ofNat o.conc
  let cap := F64.div (F64.mul o.maxComplete o.minRt) (F64.ofNat 1000)
  F64.lt (F64.ofNat 1) conc && F64.lt cap conc

/-- `can_pass_check`: does rule `r` trip? together with the snapshot value it reports -/
def SysRule.trips (r : SysRule) (o : SysObs) : Bool × F64 :=
  match r.metric with
  | .inboundQps => (!F64.lt o.qps r.thr, o.qps)
  | .concurrency => (!F64.lt (F64.ofNat o.conc) r.thr, F64.ofNat o.conc)
  | .avgRt => (!F64.lt o.avgRt r.thr, o.avgRt)
  | .load => (F64.lt r.thr o.load && (!r.bbr || bbrExceeded o), o.load)
  | .cpuUsage => (F64.lt r.thr o.cpu && (!r.bbr || bbrExceeded o), o.cpu)

/-- the system slot: outbound entries are never checked; rules in order, the first that trips blocks -/
def sysCheck (rules : List SysRule) (inbound : Bool) (o : SysObs) : Option (String × F64) :=
  if !inbound then none
  else match rules.find? (fun r => (r.trips o).1) with
    | some r => some (r.id, (r.trips o).2)
    | none => none

/-! ### the world -/

structure Entry where
  res : String
  batch : Nat
  inbound : Bool
  startMs : Nat
  deriving Repr, Inhabited

/-- the outcome of `EntryBuilder::build` -/
inductive BuildRes where
  | pass
  | blocked (ty : String) (rule : String) (snap : String)
  deriving Repr, DecidableEq, Inhabited

structure World where
  nowNs : Nat := 0
  nodes : List (String × Node) := []
  inbound : Node := {}
  flow : List (String × List FlowCtrl) := []
  iso : List (String × List IsoRule) := []
  sys : List SysRule := []
  load : F64 := F64.zero
  cpu : F64 := F64.zero
  entries : List (Nat × Entry) := []
  deriving Inhabited

namespace World
def nowMs (w : World) : Nat := w.nowNs / 1000000

def lookup {α : Type} (l : List (String × α)) (k : String) : Option α := (l.find? (fun p => p.1 == k)).map (·.2)
def update {α : Type} (l : List (String × α)) (k : String) (v : α) : List (String × α) :=
  (k, v) :: l.filter (fun p => p.1 != k)

def node (w : World) (res : String) : Node := (lookup w.nodes res).getD {}
def ctrls (w : World) (res : String) : List FlowCtrl := (lookup w.flow res).getD []
def isoRules (w : World) (res : String) : List IsoRule := (lookup w.iso res).getD []

/-- `ResourceNode::max_avg(Complete)` = `max_of_single_bucket as f64 * sample_count as f64 / interval_ms as f64 * 1000.0` -/
def maxAvgComplete (n : Node) (nowMs : Nat) : F64 :=
  F64.mul (F64.div (F64.mul (F64.ofNat (n.ring.maxOfSingleBucket globalGeo defaultReader nowMs .complete)) (F64.ofNat 2)) (F64.ofNat 1000)) (F64.ofNat 1000)

/-- the observation the system slot makes now -/
def sysObs (w : World) : SysObs :=
  let n := w.inbound
  let now := w.nowMs
  { qps := n.ring.qpsWithTime globalGeo defaultReader now .pass, conc := n.conc,
    avgRt := n.ring.avgRt globalGeo defaultReader now, load := w.load, cpu := w.cpu,
    maxComplete := maxAvgComplete n now, minRt := F64.ofNat (n.ring.minRt globalGeo defaultReader now) }

/-- rendering of an f64 snapshot: integers without denominator -/
def snapStr (x : F64) : String :=
  let s := x.toStr
  if s.endsWith "/1" then (s.dropEnd 2).toString else s

/-- block type name the isolation slot reports -/
def isoBlockType : String := "Isolation"

/-- the rule-check slots in slot order (system, flow, isolation, …); every slot runs; the last blocked result wins -/
def verdict (w : World) (res : String) (batch : Nat) (inbound : Bool) : BuildRes :=
  let now := w.nowMs
  let nd := w.node res
  let r0 : BuildRes := match sysCheck w.sys inbound w.sysObs with
    | some (id, snap) => BuildRes.blocked "SystemFlow" id (snapStr snap)
    | none => .pass
  let r1 := match flowCheck (w.ctrls res) nd now batch with
    | some (id, snap) => BuildRes.blocked "Flow" id (toString snap)
    | none => r0
  let r2 := match isoCheck (w.isoRules res) nd batch with
    | some (id, snap) => BuildRes.blocked isoBlockType id (toString snap)
    | none => r1
  r2

/-- `EntryBuilder::build` on the global slot chain -/
def build (w : World) (eid : Nat) (res : String) (batch : Nat) (inbound : Bool) : World × BuildRes :=
  let now := w.nowMs
  -- prepare: get_or_create_resource_node
  let nd := w.node res
  match w.verdict res batch inbound with
  | .pass =>
    let nd' := nd.recordPass now batch
    let inb' := if inbound then w.inbound.recordPass now batch else w.inbound
    let ctrls' := (w.ctrls res).map (fun c => c.recordPass now batch)
    ({ w with nodes := update w.nodes res nd', inbound := inb',
              flow := if (w.ctrls res).isEmpty then w.flow else update w.flow res ctrls',
              entries := (eid, ⟨res, batch, inbound, now⟩) :: w.entries }, .pass)
  | blocked =>
    let nd' := nd.recordBlock now batch
    let inb' := if inbound then w.inbound.recordBlock now batch else w.inbound
    ({ w with nodes := update w.nodes res nd', inbound := inb' }, blocked)

/-- `entry.exit()` of a passed entry -/
def exit (w : World) (eid : Nat) : Option World :=
  match w.entries.find? (fun p => p.1 == eid) with
  | none => none
  | some (_, e) =>
    let now := w.nowMs
    let rt := now - e.startMs
    let nd' := (w.node e.res).recordComplete now e.batch rt
    let inb' := if e.inbound then w.inbound.recordComplete now e.batch rt else w.inbound
    some { w with nodes := update w.nodes e.res nd', inbound := inb',
                  entries := w.entries.filter (fun p => p.1 != eid) }

/-- `flow::load_rules_of_resource` restricted to what C01 needs: controllers for direct/reject rules; a rule equal
to an old one keeps its controller (and statistics), otherwise a fresh one is built. `order` is the
order in which the implementation holds them (HashSet iteration), adopted by the driver. -/
def loadFlow (w : World) (res : String) (rules : List (String × F64 × Nat)) : World :=
  let old := w.ctrls res
  let mk := fun (r : String × F64 × Nat) =>
    match old.find? (fun c => c.thr == r.2.1 && c.ivl == r.2.2) with
    | some c => { c with id := r.1 }
    | none => { id := r.1, thr := r.2.1, ivl := r.2.2, stat := flowStatFor r.2.2 }
  -- building controllers touches the resource node (generate_stat_for → get_or_create_resource_node)
  let w := { w with nodes := if rules.isEmpty then w.nodes else update w.nodes res (w.node res) }
  { w with flow := update w.flow res (rules.map mk) }

def loadIso (w : World) (res : String) (rules : List IsoRule) : World :=
  { w with iso := update w.iso res rules }

end World
end Sentinel
