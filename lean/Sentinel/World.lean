import Sentinel.LeapArray
import Sentinel.Hotspot
import Sentinel.Breaker
/-!
Sequential model of an entry's life through the global slot chain (DESIGN §5.3):
`EntryBuilder::build` = prepare (node) → checks system(1000) flow(2000) isolation(3000) hotspot(4000)
breaker(5000), all run, last blocked result wins → stat slots (node, flow-standalone, …);
blocked ⇒ internal exit without completion; `exit` = completion on the node (and inbound mirror).

This file: statistics node, reject-type flow control, isolation. Other families plug in their own
files (`Hotspot`, `Breaker`, `System`).
-/
namespace Sentinel

def globalGeo : Geo := ⟨20, 500⟩           -- DEFAULT_SAMPLE_COUNT_TOTAL × 500 ms = 10 s
def defaultReader : Reader := ⟨2, 1000⟩    -- DEFAULT_SAMPLE_COUNT, DEFAULT_INTERVAL_MS

/-- `ResourceNode`: global array + in-flight counter; `hist` is the ghost history of the array -/
structure Node where
  ring : BRing := ringInit MetricBucket.zero globalGeo
  conc : Nat := 0
  hist : List TEv := []
  deriving Repr, Inhabited

namespace Node
/-- `BucketLeapArray::add_count`/`update_concurrency`: an error from `get_bucket_of_time` is logged and ignored -/
def record (n : Node) (nowMs : Nat) (e : Ev) : Node :=
  match n.ring.record globalGeo nowMs e with
  | some r => { n with ring := r, hist := (nowMs, e) :: n.hist }
  | none => n

def addCount (n : Node) (nowMs : Nat) (k : Kind) (c : Nat) : Node := n.record nowMs (.add k c)

/-- `increase_concurrency`: `fetch_add(1) + 1` then `update_concurrency` on the array -/
def increaseConcurrency (n : Node) (nowMs : Nat) : Node :=
  ({ n with conc := n.conc + 1 }).record nowMs (.conc (n.conc + 1))

def decreaseConcurrency (n : Node) : Node := { n with conc := n.conc - 1 }

/-- `ResourceNodeStatSlot::record_pass_for` -/
def recordPass (n : Node) (nowMs batch : Nat) : Node := (n.increaseConcurrency nowMs).addCount nowMs .pass batch
/-- `record_block_for` -/
def recordBlock (n : Node) (nowMs batch : Nat) : Node := n.addCount nowMs .block batch
/-- `record_complete_for` -/
def recordComplete (n : Node) (nowMs batch rt : Nat) : Node :=
  ((n.addCount nowMs .rt rt).addCount nowMs .complete batch).decreaseConcurrency

def sum (n : Node) (rd : Reader) (nowMs : Nat) (k : Kind) : Nat := n.ring.sumWithTime globalGeo rd nowMs k
end Node

/-! ### flow control, reject type -/

/-- where a controller reads (and possibly writes) its statistics: `StandaloneStat` -/
inductive FlowStat where
  | global (rd : Reader)                                   -- reuse_global = true
  | priv (g : Geo) (ring : BRing) (rd : Reader) (hist : List TEv)   -- private BucketLeapArray + its reader
  | nop                                                    -- NOP_STAT: rule needs no statistic
  deriving Repr, Inhabited

/-- `WarmUpCalculator` -/
structure WarmUp where
  coldFactor : Nat
  warning : Nat
  maxToken : Nat
  slope : F64
  stored : Nat := 0
  lastFilled : Nat := 0
  deriving Repr, Inhabited

/-- `WarmUpCalculator::new` -/
def WarmUp.new (thr : F64) (periodSec coldFactor : Nat) : WarmUp :=
  let cf := if coldFactor ≤ 1 then 3 else coldFactor
  let period := F64.ofNat periodSec
  let cfm := F64.ofNat (cf - 1)
  let cfp := F64.ofNat (cf + 1)
  let warning := (F64.div (F64.mul period thr) cfm).toNatFloor
  let maxToken := warning + 2 * (F64.div (F64.mul period thr) cfp).toNatFloor
  let slope := F64.div (F64.div cfm thr) (F64.ofNat (maxToken - warning))
  { coldFactor := cf, warning := warning, maxToken := maxToken, slope := slope }

inductive FlowCalc where
  | direct
  | warmUp (s : WarmUp)
  deriving Repr, Inhabited

inductive FlowChecker where
  | reject
  | throttling (lastPassedNs : Nat)
  deriving Repr, Inhabited

/-- `generate_stat_for` under the default configuration (global 20×500 ms, default metric 2×500 ms) -/
def flowStatFor (ivl : Nat) : FlowStat :=
  if ivl = 0 ∨ ivl = 1000 then .global defaultReader
  else
    let sc := if ivl > 500 ∧ ivl < 10000 ∧ ivl % 500 = 0 then ivl / 500 else 1
    if checkReuse sc ivl 20 10000 = 0 then .global ⟨sc, ivl⟩
    else .priv ⟨sc, ivl / sc⟩ (ringInit MetricBucket.zero ⟨sc, ivl / sc⟩) ⟨sc, ivl⟩ []

/-- a flow rule as given to `loadFlow`: direct/reject by default -/
structure FlowSpec where
  id : String
  thr : F64
  ivl : Nat
  warmUp : Bool := false
  throttling : Bool := false
  period : Nat := 0
  coldFactor : Nat := 0
  maxQueueMs : Nat := 0
  deriving Repr, Inhabited

def FlowSpec.needStat (r : FlowSpec) : Bool := r.warmUp || !r.throttling


/-- `flow::Rule`'s `PartialEq` (every field but the id) -/
def FlowSpec.eqv (a b : FlowSpec) : Bool :=
  a.thr == b.thr && a.ivl == b.ivl && a.warmUp == b.warmUp && a.throttling == b.throttling && a.period == b.period &&
  a.coldFactor == b.coldFactor && a.maxQueueMs == b.maxQueueMs

/-- `flow::Rule::is_stat_reusable` (same resource, relation and reference resource are implied here) -/
def FlowSpec.statReusable (a b : FlowSpec) : Bool := a.ivl == b.ivl && a.needStat && b.needStat

structure FlowCtrl where
  id : String
  thr : F64
  ivl : Nat
  stat : FlowStat
  calcr : FlowCalc := .direct
  checker : FlowChecker := .reject
  maxQueueMs : Nat := 0
  spec : Option FlowSpec := none      -- the rule object the controller is bound to (kept when the controller is reused)
  deriving Repr, Inhabited

/-- `build_resource_*` of the three controller-holding managers: for every rule, in the order the rule set is iterated,
reuse the first old controller whose rule is equal (removing it from the old list); otherwise build a new controller,
taking over the statistics of the first stat-reusable old controller (removing that one), otherwise a fresh one -/
def rebuildCtrls {ρ κ : Type} (sameRule : ρ → κ → Bool) (statReusable : ρ → κ → Bool) (fresh : ρ → κ) (reuseStat : ρ → κ → κ) :
    List ρ → List κ → List κ
  | [], _ => []
  | r :: rest, old =>
    match old.findIdx? (sameRule r) with
    | some i =>
      match old[i]? with
      | some c => c :: rebuildCtrls sameRule statReusable fresh reuseStat rest (old.eraseIdx i)
      | none => rebuildCtrls sameRule statReusable fresh reuseStat rest old
    | none =>
      match old.findIdx? (statReusable r) with
      | some j =>
        match old[j]? with
        | some c => reuseStat r c :: rebuildCtrls sameRule statReusable fresh reuseStat rest (old.eraseIdx j)
        | none => fresh r :: rebuildCtrls sameRule statReusable fresh reuseStat rest old
      | none => fresh r :: rebuildCtrls sameRule statReusable fresh reuseStat rest old

/-- `read_only_metric().sum(Pass)` of a controller -/
def FlowCtrl.curCount (c : FlowCtrl) (node : Node) (nowMs : Nat) : Nat :=
  match c.stat with
  | .global rd => node.sum rd nowMs .pass
  | .priv g ring rd _ => ring.sumWithTime g rd nowMs .pass
  | .nop => 0

/-- `RejectChecker::do_check`: blocked iff `cur as f64 + batch as f64 > threshold`; the left side is the exact
integer `cur + batch` (modelling assumption: counts stay below 2^53, where `u64 → f64` is exact) -/
def FlowCtrl.blocks (c : FlowCtrl) (node : Node) (nowMs batch : Nat) : Bool :=
  F64.ltNat c.thr (c.curCount node nowMs + batch)

/-- the flow slot: controllers in order, stop at the first that blocks; result = (rule id, snapshot) -/
def flowCheck (ctrls : List FlowCtrl) (node : Node) (nowMs batch : Nat) : Option (String × Nat) :=
  match ctrls.find? (fun c => c.blocks node nowMs batch) with
  | some c => some (c.id, c.curCount node nowMs)
  | none => none

/-- `StandaloneStatSlot::on_entry_pass`: every private array records the pass -/
def FlowCtrl.recordPass (c : FlowCtrl) (nowMs batch : Nat) : FlowCtrl :=
  match c.stat with
  | .global _ => c
  | .priv g ring rd hist =>
    match ring.record g nowMs (.add .pass batch) with
    | some r => { c with stat := .priv g r rd ((nowMs, .add .pass batch) :: hist) }
    | none => c
  | .nop => c

/-! ### flow control, general controllers: calculators (direct, warm-up) × checkers (reject, throttling) -/

/-- `qps_previous(Pass)` of the controller's read-only metric -/
def FlowCtrl.qpsPrevious (c : FlowCtrl) (node : Node) (nowMs : Nat) : F64 :=
  match c.stat with
  | .global rd => node.ring.qpsPrevious globalGeo rd nowMs .pass
  | .priv g ring rd _ => ring.qpsPrevious g rd nowMs .pass
  | .nop => F64.zero

/-- `WarmUpCalculator::sync_token` + `cool_down_tokens` -/
def WarmUp.sync (s : WarmUp) (thr : F64) (nowMs : Nat) (passQps : F64) : WarmUp :=
  let curr := nowMs - nowMs % 1000
  if curr ≤ s.lastFilled then s else
  let old := s.stored
  let refill := decide (old < s.warning) || F64.lt passQps (F64.floor (F64.div thr (F64.ofNat s.coldFactor)))
  let newV := if refill then old + (F64.div (F64.mul (F64.ofNat (curr - s.lastFilled)) thr) (F64.ofNat 1000)).toNatFloor else old
  let newV := min newV s.maxToken
  let drain := passQps.toNatFloor
  { s with stored := if newV < drain then 0 else newV - drain, lastFilled := curr }

/-- `calculate_allowed_threshold` of the warm-up calculator, after `sync` -/
def WarmUp.allowed (s : WarmUp) (thr : F64) : F64 :=
  if s.stored ≥ s.warning then
    F64.nextAfter (F64.div (F64.ofNat 1) (F64.add (F64.mul (F64.ofNat (s.stored - s.warning)) s.slope) (F64.div (F64.ofNat 1) thr)))
  else thr

/-- the calculator step: returns the (possibly updated) controller and the allowed threshold -/
def FlowCtrl.allowed (c : FlowCtrl) (node : Node) (nowMs : Nat) : FlowCtrl × F64 :=
  match c.calcr with
  | .direct => (c, c.thr)
  | .warmUp s =>
    let s' := s.sync c.thr nowMs (c.qpsPrevious node nowMs)
    ({ c with calcr := .warmUp s' }, s'.allowed c.thr)

/-- result of one controller's `perform_checking` -/
inductive FlowRes where
  | pass
  | blocked (rule : String) (snap : String)
  | wait (ns : Nat)
  deriving Repr, DecidableEq, Inhabited

def f64SnapStr (x : F64) : String :=
  let s := x.toStr
  if s.endsWith "/1" then (s.dropEnd 2).toString else s

/-- flow `ThrottlingChecker::do_check` with allowed threshold `thr`; times in nanoseconds -/
def throttleCheck (id : String) (thr : F64) (statIntervalNs maxQueueNs lastPassed nowNs batch : Nat) : Nat × FlowRes :=
  if batch = 0 then (lastPassed, .pass)
  else if !F64.lt F64.zero thr then (lastPassed, .blocked id (f64SnapStr thr))
  else if F64.ltNat thr batch then (lastPassed, .blocked "-" "-")
  else
    let intervalNs := (F64.mul (F64.div (F64.ofNat batch) thr) (F64.ofNat statIntervalNs)).toNatFloor
    let expected := lastPassed + intervalNs
    if expected ≤ nowNs then (nowNs, .pass)
    else
      let est := expected - nowNs
      if est > maxQueueNs then (lastPassed, .blocked id (toString est))
      else (expected, .wait est)

/-- `Controller::perform_checking`: calculator, then checker -/
def FlowCtrl.step (c : FlowCtrl) (node : Node) (nowNs batch : Nat) : FlowCtrl × FlowRes :=
  let nowMs := nowNs / 1000000
  let (c1, allowed) := c.allowed node nowMs
  match c1.checker with
  | .reject =>
    let cur := c1.curCount node nowMs
    if F64.ltNat allowed (cur + batch) then (c1, .blocked c1.id (toString cur)) else (c1, .pass)
  | .throttling last =>
    let ivlNs := (if c1.ivl = 0 then 1000 else c1.ivl) * 1000000
    let (last', r) := throttleCheck c1.id allowed ivlNs (c1.maxQueueMs * 1000000) last nowNs batch
    ({ c1 with checker := .throttling last' }, r)

/-- the flow slot: controllers in order; a `wait` is slept at once (the clock the next controller sees is later);
the first blocking controller ends the slot. Returns (controllers', clock', block) -/
def flowSlot : List FlowCtrl → Node → Nat → Nat → List FlowCtrl × Nat × Option (String × String)
  | [], _, nowNs, _ => ([], nowNs, none)
  | c :: rest, node, nowNs, batch =>
    match c.step node nowNs batch with
    | (c', .pass) => let (rest', t, b) := flowSlot rest node nowNs batch; (c' :: rest', t, b)
    | (c', .wait ns) => let (rest', t, b) := flowSlot rest node (nowNs + ns) batch; (c' :: rest', t, b)
    | (c', .blocked rule snap) => (c' :: rest, nowNs, some (rule, snap))

/-! ### hotspot slot -/

/-- the hotspot slot over one resource's controllers: like the flow slot; a `wait w` is slept as
`hsSleepNs w` nanoseconds -/
def hsSlot (sleepNs : Nat → Nat) : List HsCtrl → Nat → Option (List String) → Option (List (String × String)) → Nat →
    List HsCtrl × Nat × Option (String × String)
  | [], nowNs, _, _, _ => ([], nowNs, none)
  | c :: rest, nowNs, args, atts, batch =>
    match extractArgs c.rule args atts with
    | none => let (rest', t, b) := hsSlot sleepNs rest nowNs args atts batch; (c :: rest', t, b)
    | some arg =>
      match c.check (nowNs / 1000000) arg batch with
      | (c', .pass) => let (rest', t, b) := hsSlot sleepNs rest nowNs args atts batch; (c' :: rest', t, b)
      | (c', .wait w) => let (rest', t, b) := hsSlot sleepNs rest (nowNs + sleepNs w) args atts batch; (c' :: rest', t, b)
      | (c', .blocked snap _) => (c' :: rest, nowNs, some (c.rule.id, toString snap))

/-! ### isolation -/

structure IsoRule where
  id : String
  thr : Nat
  deriving Repr, Inhabited

/-- isolation slot: first rule with `conc + batch > threshold` -/
def isoCheck (rules : List IsoRule) (node : Node) (batch : Nat) : Option (String × Nat) :=
  match rules.find? (fun r => node.conc + batch > r.thr) with
  | some r => some (r.id, node.conc)
  | none => none

/-! ### system protection -/

inductive SysMetric where
  | load | avgRt | concurrency | inboundQps | cpuUsage
  deriving Repr, DecidableEq, Inhabited

structure SysRule where
  id : String
  metric : SysMetric
  bbr : Bool            -- AdaptiveStrategy::BBR
  thr : F64
  deriving Repr, Inhabited

/-- what the system slot observes at a check: the global inbound statistics and the last load / CPU readings -/
structure SysObs where
  qps : F64
  conc : Nat
  avgRt : F64
  load : F64
  cpu : F64
  maxComplete : F64     -- `max_avg(Complete)`: best completed-per-second rate of a single bucket
  minRt : F64
  deriving Repr, Inhabited

/-- `check_bbr_simple` is *false* (i.e. the BBR condition holds) iff more than one inbound request is in flight and
their number exceeds the estimated capacity `max_complete * min_rt / 1000` -/
def bbrExceeded (o : SysObs) : Bool :=
  let conc := F64.ofNat o.conc
  let cap := F64.div (F64.mul o.maxComplete o.minRt) (F64.ofNat 1000)
  F64.lt (F64.ofNat 1) conc && F64.lt cap conc

/-- `can_pass_check`: does rule `r` trip? together with the snapshot value it reports -/
def SysRule.trips (r : SysRule) (o : SysObs) : Bool × F64 :=
  match r.metric with
  | .inboundQps => (!F64.lt o.qps r.thr, o.qps)
  | .concurrency => (!F64.lt (F64.ofNat o.conc) r.thr, F64.ofNat o.conc)
  | .avgRt => (!F64.lt o.avgRt r.thr, o.avgRt)
  | .load => (F64.lt r.thr o.load && (!r.bbr || bbrExceeded o), o.load)
  | .cpuUsage => (F64.lt r.thr o.cpu && (!r.bbr || bbrExceeded o), o.cpu)

/-- the system slot: outbound entries are never checked; rules in order, the first that trips blocks -/
def sysCheck (rules : List SysRule) (inbound : Bool) (o : SysObs) : Option (String × F64) :=
  if !inbound then none
  else match rules.find? (fun r => (r.trips o).1) with
    | some r => some (r.id, (r.trips o).2)
    | none => none

/-! ### the world -/

structure Entry where
  res : String
  batch : Nat
  inbound : Bool
  startMs : Nat
  args : Option (List String) := none
  atts : Option (List (String × String)) := none
  hooks : List String := []          -- breakers that registered a rollback exit hook on this entry
  deriving Repr, Inhabited

/-- the outcome of `EntryBuilder::build` -/
inductive BuildRes where
  | pass
  | blocked (ty : String) (rule : String) (snap : String)
  deriving Repr, DecidableEq, Inhabited

structure World where
  nowNs : Nat := 0
  nodes : List (String × Node) := []
  inbound : Node := {}
  flow : List (String × List FlowCtrl) := []
  iso : List (String × List IsoRule) := []
  sys : List SysRule := []
  load : F64 := F64.zero
  cpu : F64 := F64.zero
  hs : List (String × List HsCtrl) := []
  br : List (String × List Breaker) := []
  log : List BEvent := []              -- listener notifications, oldest first
  hsSleepNs : Nat → Nat := hsWaitToNs  -- unit conversion applied by the hotspot slot to a throttling wait
  entries : List (Nat × Entry) := []
  deriving Inhabited

namespace World
def nowMs (w : World) : Nat := w.nowNs / 1000000

def lookup {α : Type} (l : List (String × α)) (k : String) : Option α := (l.find? (fun p => p.1 == k)).map (·.2)
def update {α : Type} (l : List (String × α)) (k : String) (v : α) : List (String × α) :=
  (k, v) :: l.filter (fun p => p.1 != k)

def node (w : World) (res : String) : Node := (lookup w.nodes res).getD {}
def ctrls (w : World) (res : String) : List FlowCtrl := (lookup w.flow res).getD []
def isoRules (w : World) (res : String) : List IsoRule := (lookup w.iso res).getD []
def hsCtrls (w : World) (res : String) : List HsCtrl := (lookup w.hs res).getD []
def breakers (w : World) (res : String) : List Breaker := (lookup w.br res).getD []

/-- `ResourceNode::max_avg(Complete)` = `max_of_single_bucket as f64 * sample_count as f64 / interval_ms as f64 * 1000.0` -/
def maxAvgComplete (n : Node) (nowMs : Nat) : F64 :=
  F64.mul (F64.div (F64.mul (F64.ofNat (n.ring.maxOfSingleBucket globalGeo defaultReader nowMs .complete)) (F64.ofNat 2)) (F64.ofNat 1000)) (F64.ofNat 1000)

/-- the observation the system slot makes now -/
def sysObs (w : World) : SysObs :=
  let n := w.inbound
  let now := w.nowMs
  { qps := n.ring.qpsWithTime globalGeo defaultReader now .pass, conc := n.conc,
    avgRt := n.ring.avgRt globalGeo defaultReader now, load := w.load, cpu := w.cpu,
    maxComplete := maxAvgComplete n now, minRt := F64.ofNat (n.ring.minRt globalGeo defaultReader now) }

/-- rendering of an f64 snapshot: integers without denominator -/
def snapStr (x : F64) : String := f64SnapStr x

/-- block type name the isolation slot reports -/
def isoBlockType : String := "Isolation"

/-- what the rule-check slots produce: updated controller states, the clock after any throttling sleeps,
listener notifications, rollback hooks registered on the entry, and the verdict -/
structure CheckOut where
  flow : List FlowCtrl
  hs : List HsCtrl
  br : List Breaker
  nowNs : Nat
  events : List BEvent
  hooks : List String
  res : BuildRes

/-- the rule-check slots in slot order: system(1000) flow(2000) isolation(3000) hotspot(4000) breaker(5000);
every slot runs; the last blocked result wins -/
def runChecks (w : World) (res : String) (batch : Nat) (inbound : Bool)
    (args : Option (List String)) (atts : Option (List (String × String))) : CheckOut :=
  let nd := w.node res
  let r0 : BuildRes := match sysCheck w.sys inbound w.sysObs with
    | some (id, snap) => BuildRes.blocked "SystemFlow" id (snapStr snap)
    | none => .pass
  let (flow', t1, fb) := flowSlot (w.ctrls res) nd w.nowNs batch
  let r1 := match fb with
    | some (id, snap) => BuildRes.blocked "Flow" id snap
    | none => r0
  let r2 := match isoCheck (w.isoRules res) nd batch with
    | some (id, snap) => BuildRes.blocked isoBlockType id (toString snap)
    | none => r1
  let (hs', t2, hb) := hsSlot w.hsSleepNs (w.hsCtrls res) t1 args atts batch
  let r3 := match hb with
    | some (id, snap) => BuildRes.blocked "HotSpotParamFlow" id snap
    | none => r2
  let (br', bblocked, evs, hooks) := brSlot (w.breakers res) (t2 / 1000000)
  let r4 := if bblocked then BuildRes.blocked "CircuitBreaking" "-" "-" else r3
  { flow := flow', hs := hs', br := br', nowNs := t2, events := evs, hooks := hooks, res := r4 }

/-- run the rollback exit hooks of an entry (`blocked` = the entry's verdict) -/
def runHooks (brs : List Breaker) (hooks : List String) (blocked : Bool) : List Breaker × List BEvent :=
  brs.foldl (fun (acc : List Breaker × List BEvent) b =>
      if hooks.contains b.rule.id then
        let (b', ev) := b.rollback blocked
        (acc.1 ++ [b'], acc.2 ++ ev)
      else (acc.1 ++ [b], acc.2)) ([], [])

def setIfAny {α : Type} (l : List (String × List α)) (res : String) (old new : List α) : List (String × List α) :=
  if old.isEmpty then l else update l res new

/-- `EntryBuilder::build` on the global slot chain -/
def build (w : World) (eid : Nat) (res : String) (batch : Nat) (inbound : Bool)
    (args : Option (List String) := none) (atts : Option (List (String × String)) := none) : World × BuildRes :=
  let startMs := w.nowMs                     -- EntryContext::new()
  -- prepare: get_or_create_resource_node
  let nd := w.node res
  let out := w.runChecks res batch inbound args atts
  let now := out.nowNs / 1000000
  let w1 := { w with nowNs := out.nowNs, flow := setIfAny w.flow res (w.ctrls res) out.flow,
                     hs := setIfAny w.hs res (w.hsCtrls res) out.hs,
                     br := setIfAny w.br res (w.breakers res) out.br, log := w.log ++ out.events }
  match out.res with
  | .pass =>
    let nd' := nd.recordPass now batch
    let inb' := if inbound then w.inbound.recordPass now batch else w.inbound
    let ctrls' := out.flow.map (fun c => c.recordPass now batch)
    let hs' := out.hs.map (fun c => c.concAdjust (extractArgs c.rule args atts) true)
    ({ w1 with nodes := update w.nodes res nd', inbound := inb',
               flow := setIfAny w.flow res (w.ctrls res) ctrls',
               hs := setIfAny w.hs res (w.hsCtrls res) hs',
               entries := (eid, { res := res, batch := batch, inbound := inbound, startMs := startMs,
                                  args := args, atts := atts, hooks := out.hooks }) :: w.entries }, .pass)
  | blocked =>
    let nd' := nd.recordBlock now batch
    let inb' := if inbound then w.inbound.recordBlock now batch else w.inbound
    -- a blocked entry is exited internally: exit handlers run, no completion
    let (br', evs) := runHooks out.br out.hooks true
    ({ w1 with nodes := update w.nodes res nd', inbound := inb',
               br := setIfAny w.br res (w.breakers res) br', log := w.log ++ out.events ++ evs }, blocked)

/-- `entry.exit()` of a passed entry; `err` = an error was attached with `set_err` before -/
def exit (w : World) (eid : Nat) (err : Bool := false) : Option World :=
  match w.entries.find? (fun p => p.1 == eid) with
  | none => none
  | some (_, e) =>
    let now := w.nowMs
    -- exit handlers first (the entry is not blocked: the rollback hooks do nothing)
    let (br0, ev0) := runHooks (w.breakers e.res) e.hooks false
    let rt := now - e.startMs
    let nd' := (w.node e.res).recordComplete now e.batch rt
    let inb' := if e.inbound then w.inbound.recordComplete now e.batch rt else w.inbound
    let hs' := (w.hsCtrls e.res).map (fun c => c.concAdjust (extractArgs c.rule e.args e.atts) false)
    let (br', evs) := br0.foldl (fun (acc : List Breaker × List BEvent) b =>
        let (b', ev) := b.onComplete now rt err
        (acc.1 ++ [b'], acc.2 ++ ev)) ([], [])
    some { w with nodes := update w.nodes e.res nd', inbound := inb',
                  hs := setIfAny w.hs e.res (w.hsCtrls e.res) hs',
                  br := setIfAny w.br e.res (w.breakers e.res) br',
                  log := w.log ++ ev0 ++ evs,
                  entries := w.entries.filter (fun p => p.1 != eid) }

/-- a fresh controller for a flow rule (`generate_stat_for` + calculator + checker) -/
def freshFlowCtrl (r : FlowSpec) : FlowCtrl :=
  { id := r.id, thr := r.thr, ivl := r.ivl,
    stat := if r.needStat then flowStatFor r.ivl else .nop,
    calcr := if r.warmUp then .warmUp (WarmUp.new r.thr r.period r.coldFactor) else .direct,
    checker := if r.throttling then .throttling 0 else .reject,
    maxQueueMs := r.maxQueueMs, spec := some r }

/-- `flow::load_rules_of_resource` / the per-resource part of `load_rules`: controllers are rebuilt with `rebuildCtrls`.
The list is in the order in which the implementation processed the rules. -/
def loadFlow (w : World) (res : String) (rules : List FlowSpec) : World :=
  let old := w.ctrls res
  let ctrls := rebuildCtrls
    (fun (r : FlowSpec) (c : FlowCtrl) => match c.spec with | some s => r.eqv s | none => false)
    (fun (r : FlowSpec) (c : FlowCtrl) => match c.spec with | some s => s.statReusable r | none => false)
    freshFlowCtrl
    (fun (r : FlowSpec) (c : FlowCtrl) => { freshFlowCtrl r with stat := c.stat })
    rules old
  -- building controllers touches the resource node (generate_stat_for → get_or_create_resource_node)
  let w := { w with nodes := if rules.any (·.needStat) then update w.nodes res (w.node res) else w.nodes }
  { w with flow := update w.flow res ctrls }

def loadIso (w : World) (res : String) (rules : List IsoRule) : World :=
  { w with iso := update w.iso res rules }

/-- `hotspot::Rule`'s `PartialEq` -/
def hsRuleEqv (a b : HsRule) : Bool :=
  a.metric == b.metric && a.strategy == b.strategy && a.paramIndex == b.paramIndex && a.paramKey == b.paramKey && a.thr == b.thr &&
  a.durSec == b.durSec && a.maxCap == b.maxCap && a.specific == b.specific &&
  (if a.strategy == .reject then a.burst == b.burst else a.maxQueueMs == b.maxQueueMs)

/-- `hotspot::Rule::is_stat_reusable` -/
def hsStatReusable (a b : HsRule) : Bool :=
  a.strategy == b.strategy && a.maxCap == b.maxCap && a.durSec == b.durSec && a.metric == b.metric

/-- `hotspot::load_rules_of_resource`: equal rules keep their controller, stat-reusable ones their counters -/
def loadHs (w : World) (res : String) (rules : List HsRule) : World :=
  let ctrls := rebuildCtrls (fun (r : HsRule) (c : HsCtrl) => hsRuleEqv r c.rule) (fun (r : HsRule) (c : HsCtrl) => hsStatReusable c.rule r)
    HsCtrl.new (fun (r : HsRule) (c : HsCtrl) => { c with rule := r }) rules (w.hsCtrls res)
  { w with hs := update w.hs res ctrls }

/-- `circuitbreaker::Rule`'s `PartialEq` -/
def brRuleEqv (a b : BRule) : Bool :=
  a.strategy == b.strategy && a.retryMs == b.retryMs && a.minReq == b.minReq && a.ivl == b.ivl && a.buckets == b.buckets &&
  (match a.strategy with | .slowRatio => a.maxRt == b.maxRt && a.thr == b.thr | _ => a.thr == b.thr)

/-- `circuitbreaker::Rule::is_stat_reusable` -/
def brStatReusable (a b : BRule) : Bool := a.strategy == b.strategy && a.ivl == b.ivl && a.buckets == b.buckets

/-- `circuitbreaker::load_rules_of_resource`: equal rules keep their breaker (state, deadline, counters), stat-reusable ones
get a new Closed breaker on the old counters -/
def loadBr (w : World) (res : String) (rules : List BRule) : World :=
  let brs := rebuildCtrls (fun (r : BRule) (b : Breaker) => brRuleEqv r b.rule) (fun (r : BRule) (b : Breaker) => brStatReusable b.rule r)
    Breaker.new (fun (r : BRule) (b : Breaker) => { Breaker.new r with ring := b.ring }) rules (w.breakers res)
  { w with br := update w.br res brs }

end World
end Sentinel
