import Sentinel.Proto
import Sentinel.Validity
/-! Driver for C12: the model's validity verdicts against `is_valid()`, and the no-panic / no-hang / still-healthy Spec
on the implementation's trace. -/
namespace Sentinel.DriverC12
open Sentinel

def obsField (obs : String) (k : String) : String :=
  match (tokens obs).filterMap (fun t => match splitFirst t "=" with
      | some (a, b) => if a == k then some b else none
      | none => none) with
  | v :: _ => v
  | [] => ""

def nameOf (s : String) : String := if s == "-" then "" else s.replace "_" " "

def parseFl (what s : String) : Except String Fl :=
  if s == "nan" then .ok .nan
  else if s == "inf" then .ok .posInf
  else if s == "-inf" then .ok .negInf
  else if s.startsWith "-" then do
    let f ← parseFrac what (s.drop 1).toString
    if f.num = 0 then pure (.nonneg F64.zero) else pure (.neg (F64.roundDiv f.num f.den))
  else do
    let f ← parseFrac what s
    pure (.nonneg (F64.roundDiv f.num f.den))

def memVal (total : Nat) (s : String) : Except String Nat :=
  if s == "T" then .ok total else if s == "T+1" then .ok (total + 1) else if s == "T-1" then .ok (total - 1) else parseNat "mem" s

def parseCtl (s : String) : FCtl := if s == "r" then .reject else if s == "t" then .throttling else .custom

/-- a rule as the driver keeps it: family, id, verdict of the model, and whether a standard generator exists for it -/
structure RuleInfo where
  fam : String
  id : String
  valid : Bool
  clause : String
  standard : Bool
  deriving Repr, Inhabited

structure St where
  totalMem : Nat := 0
  rules : List RuleInfo := []
  deriving Inhabited

def parseRule (st : St) (op : Op) : Except String RuleInfo := do
  let fam ← op.str "fam"
  let id ← op.str "id"
  let res := nameOf ((op.get? "res").getD "-")
  let mk (c : Option String) (std : Bool) : RuleInfo := ⟨fam, id, c.isNone, c.getD "ok", std⟩
  match fam with
  | "flow" => do
    let cs ← op.str "calc"
    let ctl ← op.str "ctl"
    let thr ← (op.str "thr") >>= parseFl "thr"
    let r : VFlow := {
      resource := res, refResource := nameOf ((op.get? "ref").getD "-"),
      calcs := if cs == "d" then .direct else if cs == "w" then .warmUp else if cs == "m" then .memAdaptive else .custom,
      ctl := parseCtl ctl, assoc := (op.get? "rel") == some "a", thr := thr,
      period := ← op.natD "period" 0, cold := ← op.natD "cold" 0, maxq := ← op.natD "maxq" 0, ivl := ← op.natD "ivl" 0,
      lmu := ← op.natD "lmu" 0, hmu := ← op.natD "hmu" 0,
      lwm := ← memVal st.totalMem ((op.get? "lwm").getD "0"), hwm := ← memVal st.totalMem ((op.get? "hwm").getD "0") }
    pure (mk (r.check st.totalMem) (r.calcs != .custom && r.ctl != .custom))
  | "br" => do
    let s ← op.str "strat"
    let thr ← (op.str "thr") >>= parseFl "thr"
    let r : VBr := {
      resource := res, strat := if s == "s" then .slow else if s == "r" then .ratio else if s == "c" then .count else .custom,
      retry := ← op.natD "retry" 0, minReq := ← op.natD "minreq" 0, ivl := ← op.natD "ivl" 0, buckets := ← op.natD "buckets" 0,
      maxRt := ← op.natD "maxrt" 0, thr := thr }
    pure (mk r.check (r.strat != .custom))
  | "hs" => do
    let idxS := (op.get? "idx").getD "0"
    let idx ← match idxS.toInt? with | some i => pure i | none => throw s!"bad-op: idx {idxS}"
    let r : VHs := {
      resource := res, qps := (op.get? "metric") != some "c", ctl := parseCtl ((op.get? "ctl").getD "r"), idx := idx,
      key := nameOf ((op.get? "key").getD "-"), thr := ← op.natD "thr" 0, dur := ← op.natD "dur" 0 }
    pure (mk r.check (r.ctl != .custom))
  | "iso" => do
    let r : VIso := { resource := res, thr := ← op.natD "thr" 0 }
    pure (mk r.check true)
  | "sys" => do
    let m ← op.str "metric"
    let thr ← (op.str "thr") >>= parseFl "thr"
    let r : VSys := {
      metric := if m == "load" then .load else if m == "rt" then .rt else if m == "conc" then .conc else if m == "qps" then .qps else .cpu,
      thr := thr }
    pure (mk r.check true)
  | _ => throw s!"bad-op: family {fam}"

def isAbnormal (obs : String) : Bool :=
  obs.startsWith "panic" || obs == "hang" || obs == "crash"

def stepCase (st : St) (v : Verdict) (i : Nat) (opText obs : String) : St × Verdict :=
  let op := Op.parse opText
  -- the Spec first: whatever the operation, it must come back
  let v := if isAbnormal obs then v.setViol s!"step={i} [{opText}] did not return normally: {obs}" else v
  if obs == "skipped" then (st, v) else
  match op.name with
  | "sys.total" => ({ st with totalMem := (obsField obs "totalmem").toNat?.getD 0 }, v)
  | "rule" =>
    match parseRule st op with
    | .error e => (st, v.setDiff s!"step={i} {e}")
    | .ok ri =>
      let implValid := obsField obs "valid"
      let v := if isAbnormal obs then v else v.expect i opText (if ri.valid then "valid=ok" else "valid=err") s!"valid={implValid}"
      let v := v.addTag (if ri.valid then s!"{ri.fam}:valid" else s!"{ri.fam}:invalid:{ri.clause}")
      ({ st with rules := ri :: st.rules.filter (fun r => r.id != ri.id) }, v)
  | "load" =>
    if isAbnormal obs then (st, v) else
    let via := (op.get? "via").getD ""
    let ids := op.list "ids"
    let listed := (listOf (obsField obs "listed")).filterMap (fun t => splitFirst t ":")
    let emptyRes := via == "res" && nameOf ((op.get? "res").getD "-") == ""
    let v := v.addTag s!"via:{via}"
    let v := ids.foldl (fun (v : Verdict) id =>
      match st.rules.find? (fun r => r.id == id), listed.find? (fun p => p.1 == id) with
      | some ri, some (_, l) =>
        if !ri.valid && l == "1" then v.setViol s!"step={i} [{opText}] a rule the validity check rejects ({ri.clause}) is reported as loaded"
        else if ri.valid && ri.standard && l == "0" && ids.length == 1 && !emptyRes then
          v.setViol s!"step={i} [{opText}] a rule the validity check accepts is not loaded"
        else v
      | _, _ => v.setDiff s!"step={i} [{opText}] rule {id} unknown or not reported: {obs}") v
    let v := if emptyRes then (if obsField obs "ret" == "err" then v.addTag "empty-resource-refused"
                              else v.setViol s!"step={i} [{opText}] load for an empty resource name was not refused") else v
    (st, v)
  | "build" =>
    let v := if obs == "pass" then v.addTag "build:pass" else if obs.startsWith "blocked" then v.addTag "build:blocked"
             else if obs == "err" then v.addTag "build:refused" else v
    (st, v)
  | "probe" =>
    let v := if obs == "healthy" || isAbnormal obs then v else v.setViol s!"step={i} health probe after the case: {obs}"
    (st, v.addTag "probe")
  | _ => (st, v)

def checkCase (lines : List (String × String)) : Verdict :=
  let rec go (st : St) (v : Verdict) (i : Nat) : List (String × String) → Verdict
    | [] => { v with steps := i }
    | (o, obs) :: rest =>
      let (st', v') := stepCase st v i o obs
      go st' v' (i + 1) rest
  go {} {} 0 lines

end Sentinel.DriverC12
