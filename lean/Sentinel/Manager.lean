/-!
Model of the five rule managers (`*/rule_manager.rs`) at the level of which rules are held and enforced (C10).
A rule is `(id, resource, key)`; `key` identifies the rule's parameters (two rules are *equal* when resource and key
agree, whatever their ids; rule sets hash the id as well, so the identity of a set element is id + resource + key).
Keys starting with `x` denote parameter sets that the family's validity check rejects (the validity checks
themselves are C12's subject).
-/
namespace Sentinel

inductive Fam where
  | flow | breaker | hotspot | isolation | system
  deriving Repr, DecidableEq, Inhabited

structure MRule where
  id : String
  res : String
  key : String
  deriving Repr, DecidableEq, Inhabited

def MRule.valid (r : MRule) : Bool := !r.key.startsWith "x" && r.res != ""
/-- rule equality (`PartialEq`): ignores the id -/
def MRule.sameRule (a b : MRule) : Bool := a.res == b.res && a.key == b.key
def MRule.toStr (r : MRule) : String := s!"{r.id}@{r.res}@{r.key}"

/-- a list seen as a set of elements: no element twice -/
def dedup (l : List MRule) : List MRule :=
  l.foldl (fun acc r => if acc.contains r then acc else acc ++ [r]) []

def setEq (a b : List MRule) : Bool := a.all (b.contains ·) && b.all (a.contains ·)

/-- manager state: `given` = the rules as handed in by the last replacement plus accepted appends (RULE_MAP /
CURRENT_RULES, including invalid rules of a load); `enforced` = the rules that have a controller / breaker /
are consulted by the slot (CONTROLLER_MAP, BREAKER_MAP + BREAKER_RULES, RULE_MAP of isolation and system) -/
structure Mgr where
  fam : Fam
  given : List MRule := []
  enforced : List MRule := []
  givenSeq : List MRule := []      -- system only: CURRENT_RULES is a Vec compared element-wise, ignoring ids
  deriving Repr, Inhabited

inductive MRet where
  | bool (b : Bool) | unit | err
  deriving Repr, DecidableEq, Inhabited

def MRet.toStr : MRet → String
  | .bool b => s!"ret={b}"
  | .unit => "ret=unit"
  | .err => "ret=err"

namespace Mgr

def ofRes (l : List MRule) (res : String) : List MRule := l.filter (fun r => r.res == res)
def notRes (l : List MRule) (res : String) : List MRule := l.filter (fun r => r.res != res)

/-- is a `load_rules` call with `rs` "the same as the current rules"? (system: `Vec` compared element-wise ignoring ids) -/
def unchangedAll (m : Mgr) (rs : List MRule) : Bool :=
  match m.fam with
  | .system => m.givenSeq.length == rs.length && (m.givenSeq.zip rs).all (fun p => p.1.sameRule p.2)
  | _ => setEq m.given (dedup rs)

/-- `load_rules`: the state afterwards -/
def loadAllState (m : Mgr) (rs : List MRule) : Mgr :=
  if m.unchangedAll rs then m
  else { m with given := dedup rs, enforced := (dedup rs).filter (·.valid), givenSeq := rs }

/-- `load_rules`: what it returns -/
def loadAllRet (m : Mgr) (rs : List MRule) : MRet :=
  match m.fam with | .isolation | .system => .unit | _ => .bool (!m.unchangedAll rs)

def loadAll (m : Mgr) (rs : List MRule) : Mgr × MRet := (m.loadAllState rs, m.loadAllRet rs)

/-- `load_rules_of_resource`: the state afterwards -/
def loadResState (m : Mgr) (res : String) (rs : List MRule) : Mgr :=
  if res == "" then m
  else if (dedup rs).isEmpty then { m with given := notRes m.given res, enforced := notRes m.enforced res }
  else if setEq (ofRes m.given res) (dedup rs) then m
  else { m with given := notRes m.given res ++ dedup rs,
                enforced := notRes m.enforced res ++ ((dedup rs).filter (fun r => r.valid && r.res == res)) }

def loadResRet (m : Mgr) (res : String) (rs : List MRule) : MRet :=
  if res == "" then .err
  else if (dedup rs).isEmpty then .bool true
  else if setEq (ofRes m.given res) (dedup rs) then .bool false
  else .bool true

def loadRes (m : Mgr) (res : String) (rs : List MRule) : Mgr × MRet := (m.loadResState res rs, m.loadResRet res rs)

/-- is the rule already held? flow / hotspot / breaker look into the rules as given, isolation / system into the valid ones -/
def holds (m : Mgr) (r : MRule) : Bool :=
  match m.fam with
  | .isolation | .system => m.enforced.contains r
  | _ => m.given.contains r

/-- `append_rule`: the state afterwards -/
def appendState (m : Mgr) (r : MRule) : Mgr :=
  if m.holds r then m
  else if r.valid then { m with given := m.given ++ [r], enforced := m.enforced ++ [r], givenSeq := m.givenSeq ++ [r] }
  else m

def appendRet (m : Mgr) (r : MRule) : MRet := .bool (!m.holds r)

def append (m : Mgr) (r : MRule) : Mgr × MRet := (m.appendState r, m.appendRet r)

def clear (m : Mgr) : Mgr := { m with given := [], enforced := [], givenSeq := [] }

def clearRes (m : Mgr) (res : String) : Mgr :=
  { m with given := notRes m.given res, enforced := notRes m.enforced res }

def get (m : Mgr) : List MRule := m.enforced
def getRes (m : Mgr) (res : String) : List MRule := ofRes m.enforced res

end Mgr

/-! ### Spec: the reference map -/

/-- the reference: per resource, the valid rules of the most recent replacement plus later appends -/
structure RefMap where
  rules : List MRule := []
  deriving Repr, Inhabited

namespace RefMap
def loadAll (_ : RefMap) (rs : List MRule) : RefMap := ⟨dedup (rs.filter (·.valid))⟩
def loadRes (m : RefMap) (res : String) (rs : List MRule) : RefMap :=
  if res == "" then m else ⟨Mgr.notRes m.rules res ++ dedup (rs.filter (fun r => r.valid && r.res == res))⟩
def append (m : RefMap) (r : MRule) : RefMap := if r.valid && !m.rules.contains r then ⟨m.rules ++ [r]⟩ else m
def clear (_ : RefMap) : RefMap := ⟨[]⟩
def clearRes (m : RefMap) (res : String) : RefMap := ⟨Mgr.notRes m.rules res⟩
end RefMap

end Sentinel
