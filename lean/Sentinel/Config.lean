import Sentinel.Validity
/-!
C17: `ConfigEntity::check`, `ResourceNode::new`, and the store that holds the configuration in effect.
-/
namespace Sentinel

/-- the statistic section of the configuration -/
structure StatCfg where
  sct : Nat   -- sample_count_total
  ivt : Nat   -- interval_ms_total
  sc : Nat    -- sample_count   (default read-only metric)
  iv : Nat    -- interval_ms
  deriving Repr, DecidableEq, Inhabited

def StatCfg.default : StatCfg := ⟨20, 10000, 2, 1000⟩

structure Cfg where
  version : String := "v1"
  app : String := "unknown_service"
  maxFileCount : Nat := 8
  singleFileMaxSize : Nat := 52428800
  stat : StatCfg := StatCfg.default
  deriving Repr, Inhabited

/-- `ConfigEntity::check`: first failing clause, `none` = accepted -/
def Cfg.check (c : Cfg) : Option String :=
  if c.version.isEmpty then some "version"
  else if c.app.isEmpty then some "app"
  else if c.maxFileCount = 0 then some "max_file_count"
  else if c.singleFileMaxSize = 0 then some "single_file_max_size"
  else if checkReuse c.stat.sc c.stat.iv c.stat.sct c.stat.ivt ≠ 0 then some "stat"
  else none

/-- `ResourceNode::new`: `BucketLeapArray::new(sct, ivt).unwrap()` then `SlidingWindowMetric::new(sc, iv, arr).unwrap()`;
the result is the ring geometry and the default reader -/
def nodeNew (s : StatCfg) : Except Panic (Geo × Reader) :=
  if leapNewOk s.sct s.ivt then
    if checkReuse s.sc s.iv s.sct s.ivt = 0 then .ok (⟨s.sct, s.ivt / s.sct⟩, ⟨s.sc, s.iv⟩)
    else .error (.unwrapErr "SlidingWindowMetric::new")
  else .error (.unwrapErr "BucketLeapArray::new")

/-! ## the store -/

/-- the configuration store: one cell for the process (what `GLOBAL_CONFIG` is after the repair) -/
structure Store where
  cfg : Cfg := {}
  deriving Repr, Inhabited

/-- `init_with_config` on any thread: check, then replace -/
def Store.init (s : Store) (_thread : Nat) (c : Cfg) : Store × Bool :=
  match c.check with
  | none => ({ cfg := c }, true)
  | some _ => (s, false)

/-- what a thread reads -/
def Store.read (s : Store) (_thread : Nat) : Cfg := s.cfg

/-- the store as it was before the repair: one cell per thread, each starting from the default -/
structure TlStore where
  cells : List (Nat × Cfg) := []
  deriving Repr, Inhabited

def TlStore.read (s : TlStore) (thread : Nat) : Cfg :=
  ((s.cells.find? (fun p => p.1 == thread)).map (·.2)).getD {}

def TlStore.init (s : TlStore) (thread : Nat) (c : Cfg) : TlStore × Bool :=
  match c.check with
  | none => ({ cells := (thread, c) :: s.cells.filter (fun p => p.1 != thread) }, true)
  | some _ => (s, false)

end Sentinel
