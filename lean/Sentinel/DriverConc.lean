import Sentinel.Proto
import Sentinel.ConcModels
/-! Driver for C14 / C15 / C16: Spec predicates on the implementation's scheduled executions, and the atomic-step models'
predictions for what does not depend on the schedule. -/
namespace Sentinel.DriverConc
open Sentinel Sentinel.Conc

def obsField (obs : String) (k : String) : String :=
  match (tokens obs).filterMap (fun t => match splitFirst t "=" with
      | some (a, b) => if a == k then some b else none
      | none => none) with
  | v :: _ => v
  | [] => ""

/-- a thread program line `t<i> <op> k=v …` -/
structure TOp where
  thread : Nat
  op : Op
  deriving Inhabited

structure St where
  progs : List TOp := []           -- in file order
  ran : Bool := false
  results : List (Nat × List String) := []   -- thread → observations of its operations, in program order
  log : List (List String) := []   -- schedule log, tokenised
  events : List String := []
  hasAdv : Bool := false
  retryMs : Nat := 0               -- retry timeout of the breaker rule loaded in the setup (C16)
  setupClock : Nat := 0            -- virtual ms moved by the (sequential) setup so far
  setupOpenAt : Option Nat := none -- `setupClock` when a completion of the setup last opened the breaker (start of its retry timeout)
  deriving Inhabited

def isThreadOp (name : String) : Option Nat :=
  if name.startsWith "t" then (name.drop 1).toString.toNat? else none

def progOf (st : St) (t : Nat) : List Op := (st.progs.filter (fun x => x.thread == t)).map (·.op)

def threads (st : St) : List Nat := (st.progs.map (·.thread)).eraseDups

def isAbnormal (obs : String) : Bool := obs.startsWith "panic" || obs == "hang" || obs == "crash"

/-- (resource, batch, passed?, node id, exited?) of every build of a thread, pairing exits with builds as a stack -/
structure BuildRec where
  res : String
  batch : Nat
  passed : Bool
  blocked : Bool
  node : String
  exited : Bool := false
  deriving Inhabited

def buildsOf (ops : List Op) (obs : List String) : List BuildRec :=
  let rec go (ops : List Op) (obs : List String) (stack : List Nat) (acc : Array BuildRec) : Array BuildRec :=
    match ops, obs with
    | o :: os, r :: rs =>
      if o.name == "build" then
        let res := (o.get? "res").getD ""
        let batch := ((o.get? "batch").bind String.toNat?).getD 1
        let passed := r.startsWith "build=pass"
        let node := if passed then (r.drop 11).toString else ""
        let acc' := acc.push { res := res, batch := batch, passed := passed, blocked := r.startsWith "build=blocked", node := node }
        go os rs (if passed then (acc'.size - 1) :: stack else stack) acc'
      else if o.name == "exit" then
        match stack with
        | i :: st' => if r == "exit=ok" then go os rs st' (acc.modify i (fun b => { b with exited := true })) else go os rs stack acc
        | [] => go os rs stack acc
      else go os rs stack acc
    | _, _ => acc
  (go ops obs [] #[]).toList

def cstateOf (s : String) : Option CState :=
  if s == "Closed" then some .closed else if s == "Open" then some .opn else if s == "HalfOpen" then some .halfOpen else none

/-- `Prev>Next:rule` -/
def parseEvent (e : String) : Option (CState × Option CState × String) :=
  match splitFirst e ">" with
  | some (a, rest) =>
    match splitFirst rest ":" with
    | some (b, rule) => (cstateOf a).map (fun x => (x, cstateOf b, rule))
    | none => none
  | none => none

def checkRun (prop : String) (st : St) (v : Verdict) (i : Nat) (opText obs : String) : St × Verdict :=
  let deadlock := obsField obs "deadlock"
  let status := (obsField obs "status").splitOn ";"
  let resultsRaw := (obsField obs "results").splitOn ";"
  let results : List (Nat × List String) := resultsRaw.filterMap (fun r => match splitFirst r ":" with
    | some (t, rest) => (isThreadOp t).map (fun n => (n, if rest == "" then [] else rest.splitOn ","))
    | none => none)
  let log := ((obsField obs "log").splitOn ";").map (fun e => e.splitOn "~")
  let evs := let e := obsField obs "events"; if e == "-" || e == "" then [] else e.splitOn ","
  let v := v.addTag s!"threads:{(threads st).length}"
  let v := if log.any (fun e => e.getD 1 "" == "blocked") then v.addTag "lock-contention" else v
  -- common Spec: the schedule terminates normally
  let v := if deadlock != "0" then
      v.setViol s!"step={i} deadlock under the schedule [{(Op.parse opText).get? "choices" |>.getD ""}]: {";".intercalate ((log.filter (fun e => (e.getD 0 "").startsWith "DEADLOCK" || e.getD 1 "" == "REENTRANT" || e.getD 1 "" == "blocked")).map (" ".intercalate ·))}"
    else v
  let v := if log.any (fun e => e.getD 1 "" == "REENTRANT") then v.setViol s!"step={i} a thread re-acquires a lock it already holds: {";".intercalate ((log.filter (fun e => e.getD 1 "" == "REENTRANT")).map (" ".intercalate ·))}" else v
  let v := if log.any (fun e => e.getD 0 "" == "STEP-LIMIT") then v.setViol s!"step={i} the schedule did not terminate within the step limit (livelock)" else v
  let v := match status.find? (fun s => !(s.splitOn ":").contains "ok") with
    | some s => v.setViol s!"step={i} a thread did not finish normally: {s}"
    | none => v
  let st := { st with ran := true, results := results, log := log, events := evs }
  (st, v)

/-- C14: one node per resource -/
def specOneNode (st : St) (v : Verdict) (i : Nat) : Verdict :=
  let all : List BuildRec := (threads st).flatMap (fun t => buildsOf (progOf st t) (((st.results.find? (fun r => r.1 == t)).map (·.2)).getD []))
  let ress := (all.map (·.res)).eraseDups
  ress.foldl (fun v r =>
    let nodes := ((all.filter (fun b => b.res == r && b.passed)).map (·.node)).eraseDups
    if nodes.length > 1 then v.setViol s!"step={i} entries on resource '{r}' were accounted on {nodes.length} different statistics nodes ({nodes})" else v) v

/-- the atomic operations a thread performed on the node of `res`, from its results -/
def nactsOf (res : String) (bs : List BuildRec) : List NAct :=
  bs.flatMap (fun b =>
    if b.res != res then []
    else if b.passed then [NAct.inc, NAct.add 0 b.batch] ++ (if b.exited then [NAct.add 2 b.batch, NAct.dec] else [])
    else if b.blocked then [NAct.add 1 b.batch] else [])

def eventsPathOk (evs : List String) : Option String :=
  -- per rule: transitions (drops aside) form a path from Closed
  let parsed := evs.filterMap parseEvent
  let rules := (parsed.map (·.2.2)).eraseDups
  rules.foldl (fun acc rule =>
    if acc.isSome then acc else
    let path := (parsed.filter (fun e => e.2.2 == rule)).filterMap (fun e => e.2.1.map (fun t => (e.1, t)))
    let cas := path.map (fun p => (⟨0, p.1, p.2⟩ : Cas))
    if isPath .closed cas then none else some s!"notifications of rule '{rule}' are not a path of the state machine from Closed: {evs}") none

structure ProbeSt where
  state : CState := .closed
  holder : Option Nat := none                -- who is inside the breaker's state mutex
  closedRead : List Nat := []                -- threads that, in their running operation, entered the state mutex while it said Closed
  probeBy : List Nat := []                   -- threads that, in their running operation, performed Open→Half-Open
  leftHalfOpenBy : List Nat := []            -- threads that, in their running operation, moved the breaker out of Half-Open
  opIdx : List (Nat × Nat) := []             -- thread → number of its operations that have finished
  clockLo : Nat := 0                         -- virtual time (ms since the start of the schedule) certainly reached: the finished `adv` steps
  gotLo : List (Nat × Nat) := []             -- thread → `clockLo` when it last entered the state mutex
  deadlineLo : Option Nat := none            -- earliest possible retry deadline of the current Open phase (opened during the schedule)
  bad : Option String := none

/-- C16: every admitted request must be justified: inside the request its thread either entered the breaker's state mutex
while the state was Closed (`try_pass` read Closed), or itself performed the Open→Half-Open transition (it is the probe).
Notifications are emitted inside the state mutex, so the thread inside it at that moment is the one that transitioned. -/
def specProbes (st : St) (v : Verdict) (i : Nat) : Verdict :=
  let step (p : ProbeSt) (e : List String) : ProbeSt :=
    let who := e.getD 0 ""
    let kind := e.getD 1 ""
    let body := e.getD 2 ""
    let isState := (body.splitOn ":State#").length > 1
    match isThreadOp who with
    | none => p
    | some t =>
      if kind == "got" && isState then
        { p with holder := some t, closedRead := if p.state == .closed && !p.closedRead.contains t then t :: p.closedRead else p.closedRead,
                 gotLo := (t, p.clockLo) :: p.gotLo.filter (fun x => x.1 != t) }
      else if kind == "rel" && isState then { p with holder := none }
      else if kind == "note" && body.startsWith "ev=" then
        match parseEvent (body.drop 3).toString with
        | some (_, some to, _) =>
          let probeBy := match to, p.holder with
            | .halfOpen, some h => h :: p.probeBy
            | _, _ => p.probeBy
          let left := match p.state, to, p.holder with
            | .halfOpen, .halfOpen, _ => p.leftHalfOpenBy
            | .halfOpen, _, some h => h :: p.leftHalfOpenBy
            | _, _, _ => p.leftHalfOpenBy
          -- the retry deadline is set inside the critical section that opens the breaker: not before the opener entered it
          -- (a completion renews the deadline; the roll-back of a rejected probe - performed inside its own `build` - does not)
          let holderOp := fun (h : Nat) => ((progOf st h)[((p.opIdx.find? (fun x => x.1 == h)).map (·.2)).getD 0]?).map (·.name)
          let deadlineLo := match to, p.holder with
            | .opn, some h =>
              if holderOp h == some "exit" then some (((p.gotLo.find? (fun x => x.1 == h)).map (·.2)).getD p.clockLo + st.retryMs) else none
            | .opn, none => none
            | _, _ => p.deadlineLo
          -- latest possible clock now: the finished `adv` steps plus every `adv` step some thread may be in the middle of
          let pending := (threads st).foldl (fun acc u =>
            let k := ((p.opIdx.find? (fun x => x.1 == u)).map (·.2)).getD 0
            match (progOf st u)[k]? with
            | some o => if o.name == "adv" then acc + (((o.get? "ms").bind String.toNat?).getD 0) else acc
            | none => acc) 0
          let bad := match p.state, to, p.deadlineLo with
            | .opn, .halfOpen, some d =>
              if p.clockLo + pending < d && p.bad.isNone then
                some s!"a request became the probe {d - (p.clockLo + pending)} ms or more before the retry deadline of the Open phase (no pass while Open before the retry timeout)"
              else p.bad
            | _, _, _ => p.bad
          { p with state := to, probeBy := probeBy, leftHalfOpenBy := left, deadlineLo := deadlineLo, bad := bad }
        | _ => p
      else if kind == "note" then
        let justified := p.closedRead.contains t || p.probeBy.contains t
        let bad := if body.startsWith "build=pass" && !justified && p.bad.isNone then
            some s!"thread t{t} was admitted although, during its request, it neither found the breaker Closed nor performed the Open→Half-Open transition itself (state at the end of the request: {repr p.state})"
          else p.bad
        -- a Half-Open phase ends by a completion (an `exit`) or by the rejection of the probe itself (its own `build`):
        -- a request that is not the probe never moves the breaker out of Half-Open
        let bad := if body.startsWith "build=" && p.leftHalfOpenBy.contains t && !p.probeBy.contains t && bad.isNone then
            some s!"thread t{t} moved the breaker out of Half-Open during a request that was not the probe (one probe per Half-Open phase: the phase was ended by a bystander)"
          else bad
        -- the operation of thread t that just finished; a finished `adv` step has certainly moved the clock
        let k := ((p.opIdx.find? (fun x => x.1 == t)).map (·.2)).getD 0
        let adv := match (progOf st t)[k]? with
          | some o => if o.name == "adv" then ((o.get? "ms").bind String.toNat?).getD 0 else 0
          | none => 0
        { p with bad := bad, closedRead := p.closedRead.filter (· != t), probeBy := p.probeBy.filter (· != t),
                 leftHalfOpenBy := p.leftHalfOpenBy.filter (· != t),
                 opIdx := (t, k + 1) :: p.opIdx.filter (fun x => x.1 != t), clockLo := p.clockLo + adv }
      else p
  -- notifications from the setup (before the schedule started) are in the listener log only: they fix the initial state
  let inRun := (st.log.filter (fun e => e.getD 1 "" == "note" && (e.getD 2 "").startsWith "ev=")).length
  let before := (st.events.take (st.events.length - inRun)).filterMap parseEvent
  let init : CState := ((before.filterMap (fun e => e.2.1)).getLast?).getD .closed
  -- an Open phase left behind by the setup: its retry deadline, in ms since the start of the schedule, is not before the
  -- opening completion's time plus the retry timeout (the setup clock has moved on by `setupClock - at` since)
  let initDeadline : Option Nat := match init, st.setupOpenAt with
    | .opn, some at_ => some (at_ + st.retryMs - st.setupClock)
    | _, _ => none
  let fin := st.log.foldl step { state := init, deadlineLo := initDeadline }
  match fin.bad with
  | some m => v.setViol s!"step={i} {m}"
  | none => v

def stepCase (prop : String) (st : St) (v : Verdict) (i : Nat) (opText obs : String) : St × Verdict :=
  let op := Op.parse opText
  let v := if isAbnormal obs then v.setViol s!"step={i} [{opText}] did not return normally: {obs}" else v
  if isAbnormal obs || obs == "skipped" then (st, v) else
  match isThreadOp op.name with
  | some t =>
    match op.words with
    | name :: ws => ({ st with progs := st.progs ++ [⟨t, { name := name, kv := op.kv, words := ws }⟩], hasAdv := st.hasAdv || name == "adv" }, v.addTag s!"op:{name}")
    | [] => (st, v.setDiff s!"step={i} empty thread op")
  | none =>
  match op.name with
  | "br.load" => ({ st with retryMs := ((op.get? "retry").bind String.toNat?).getD 0 }, v)
  | "run" =>
    let (st, v) := checkRun prop st v i opText obs
    let v := if prop == "C14" then specOneNode st v i else v
    let v := if prop == "C16" then
        (match eventsPathOk st.events with | some m => v.setViol s!"step={i} {m}" | none => specProbes st v i)
      else v
    let v := if st.events.any (fun e => (e.splitOn ">Open").length > 1) then v.addTag "breaker-opened" else v
    let v := if st.events.any (fun e => (e.splitOn ">HalfOpen").length > 1) then v.addTag "probe" else v
    (st, v)
  | "node" =>
    if obs == "skipped-after-abort" then (st, v) else
    let res := (op.get? "res").getD ""
    let perThread : List (List NAct) := (threads st).map (fun t => nactsOf res (buildsOf (progOf st t) (((st.results.find? (fun r => r.1 == t)).map (·.2)).getD [])))
    -- model: independent of the schedule (C14 theorems conc_eq_open, totals_eq_sums_one_bucket)
    let conc := (perThread.map concOf).foldl (· + ·) 0
    let pass := (perThread.map (recorded 0)).sum
    let block := (perThread.map (recorded 1)).sum
    let complete := (perThread.map (recorded 2)).sum
    let oc := (obsField obs "conc").toInt?.getD (-1)
    let op_ := (obsField obs "pass").toNat?.getD 0
    let ob := (obsField obs "block").toNat?.getD 0
    let occ := (obsField obs "complete").toNat?.getD 0
    let v := v.addTag (if st.hasAdv then "clock-step" else "one-bucket")
    if obs == "none" then
      (st, if pass + block = 0 then v else v.setViol s!"step={i} resource '{res}' has no statistics node although {pass + block} request(s) were made")
    else
    let v := if oc != conc then v.setViol s!"step={i} in-flight count of '{res}' is {oc}, un-exited entries: {conc}" else v
    let v :=
      if !st.hasAdv then
        if op_ != pass || ob != block || occ != complete then
          v.setViol s!"step={i} totals of '{res}' within one bucket are pass={op_} block={ob} complete={occ}, the threads recorded pass={pass} block={block} complete={complete}"
        else v
      else
        if op_ > pass || ob > block || occ > complete then
          v.setViol s!"step={i} totals of '{res}' exceed what was recorded: pass={op_}/{pass} block={ob}/{block} complete={occ}/{complete}"
        else v
    -- response-time total: never more than the sum of the entries' own round trips (each bounded by the virtual clock read
    -- before its build and after its exit); without clock steps, never less than the sum of the lower bounds either
    let v :=
      match (obsField obs "rt").toNat?, (obsField obs "rtlo").toNat?, (obsField obs "rthi").toNat? with
      | some rt, some lo, some hi =>
        if rt > hi then v.setViol s!"step={i} response-time total of '{res}' is {rt} ms, the exited entries' own round trips sum to at most {hi} ms"
        else if !st.hasAdv && rt < lo then v.setViol s!"step={i} response-time total of '{res}' is {rt} ms, the exited entries' own round trips sum to at least {lo} ms"
        else if hi > 0 then v.addTag "rt-nonzero" else v
      | _, _, _ => v
    (st, v)
  | "brstate" =>
    if obs == "skipped-after-abort" then (st, v) else
    -- final state of each breaker = target of its last notification (C16 final_state_last); single-breaker scenarios only
    let parsed := st.events.filterMap parseEvent
    let last := (parsed.filterMap (fun e => e.2.1)).getLast?
    let want := match last with | some .closed => "Closed" | some .opn => "Open" | some .halfOpen => "HalfOpen" | none => "Closed"
    let v := if (obs.splitOn "+").length == 1 && obs != "" && obs != want then
               v.setViol s!"step={i} breaker state is {obs}, the last notification said {want}" else v
    (st, v)
  | "m" =>
    -- a rule loaded in the setup (C14: a throttling or isolation rule on the shared resource): throttling waits move the
    -- virtual clock, so the activity no longer falls within one statistic bucket
    ({ st with hasAdv := st.hasAdv || prop == "C14" }, v.addTag "rule-loaded")
  | "adv" => ({ st with setupClock := st.setupClock + (((op.get? "ms").bind String.toNat?).getD 0) }, v)
  | "sbuild" | "sexit" =>
    -- setup calls report the notifications they caused; a completion that opens the breaker starts its retry timeout
    let evs := ((obsField obs "evs").splitOn ",").filterMap parseEvent
    let st := match (evs.filterMap (fun e => e.2.1)).getLast? with
      | some .opn => if op.name == "sexit" then { st with setupOpenAt := some st.setupClock } else st
      | some _ => { st with setupOpenAt := none }
      | none => st
    (st, v)
  | "probe" =>
    if obs == "skipped-after-abort" then (st, v) else
    (st, if obs == "healthy" then v.addTag "probe-healthy" else v.setViol s!"step={i} after the concurrent calls a manager no longer works: {obs}")
  | _ => (st, v)

def checkCaseFor (prop : String) (lines : List (String × String)) : Verdict :=
  let rec go (st : St) (v : Verdict) (i : Nat) : List (String × String) → Verdict
    | [] => { v with steps := i }
    | (o, obs) :: rest =>
      let (st', v') := stepCase prop st v i o obs
      go st' v' (i + 1) rest
  go {} {} 0 lines

end Sentinel.DriverConc
