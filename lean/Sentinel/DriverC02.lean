import Sentinel.Proto
import Sentinel.LeapArray
/-! Driver for C02: ring model vs implementation, and the event-list Spec on the implementation's answers. -/
namespace Sentinel.DriverC02
open Sentinel

structure St where
  geo : Option Geo := none
  piv : Nat := 0                       -- parent interval as given
  ring : BRing := []
  readers : List (String × Reader) := []
  evs : List TEv := []                 -- newest first
  tlast : Nat := 0

def parseKind (s : String) : Except String Kind :=
  match s with
  | "pass" => .ok .pass | "block" => .ok .block | "complete" => .ok .complete
  | "error" => .ok .error | "rt" => .ok .rt
  | _ => .error s!"bad-op: kind {s}"

def kinds : List Kind := [.pass, .block, .complete, .error, .rt]

def natsStr (l : List Nat) : String := ",".intercalate (l.map toString)

def obsField (obs : String) (k : String) : String :=
  match (tokens obs).filterMap (fun t => match splitFirst t "=" with
      | some (a, b) => if a == k then some b else none
      | none => none) with
  | v :: _ => v
  | [] => ""

/-- everything `read` reports, computed by the model -/
def modelRead (g : Geo) (r : BRing) (rd : Reader) (t : Nat) : String :=
  let s := kinds.map (fun k => r.sumWithTime g rd t k)
  s!"s={natsStr s} q={(r.qpsWithTime g rd t .pass).toStr} qc={(r.qpsWithTime g rd t .complete).toStr} " ++
  s!"qp={(r.qpsPrevious g rd t .pass).toStr} a={(r.avgRt g rd t).toStr} m={(F64.ofNat (r.minRt g rd t)).toStr} " ++
  s!"xb={r.maxOfSingleBucket g rd t .pass} xc={r.maxConcurrency g rd t}"

/-- the Spec's answers, computed from the event list only -/
def specRead (g : Geo) (evs : List TEv) (rd : Reader) (t : Nat) : String × String × String × String × String :=
  let hi := g.start t
  let lo := hi - rd.iv + g.L
  let s := kinds.map (fun k => windowSum g.L evs lo hi k)
  let sum := fun k => windowSum g.L evs lo hi k
  let q := F64.div (F64.ofNat (sum .pass)) rd.intervalS
  let qc := F64.div (F64.ofNat (sum .complete)) rd.intervalS
  let a := if sum .complete = 0 then F64.zero else F64.div (F64.ofNat (sum .rt)) (F64.ofNat (sum .complete))
  (natsStr s, q.toStr, qc.toStr, a.toStr, (F64.ofNat (windowMinRt g.L evs lo hi)).toStr)

def stepCase (st : St) (v : Verdict) (i : Nat) (opText obs : String) : St × Verdict :=
  let op := Op.parse opText
  let bad (m : String) : St × Verdict := (st, v.setDiff s!"step={i} {m} [{opText}]")
  match op.name with
  | "new" =>
    match op.nat "n", op.nat "iv" with
    | .ok n, .ok iv =>
      let ok := leapNewOk n iv
      let v := v.expect i opText (if ok then "ok" else "err") obs
      -- Spec: refused iff zero or non-dividing bucket count
      let v := if (obs == "ok") != (n ≠ 0 && iv % n = 0) then v.setViol s!"step={i} construction accepted/refused wrongly: n={n} iv={iv} -> {obs}" else v
      let v := v.addTag (if ok then "new-ok" else "new-refused")
      if ok then ({ st with geo := some ⟨n, iv / n⟩, piv := iv, ring := ringInit MetricBucket.zero ⟨n, iv / n⟩, readers := [], evs := [], tlast := 0 }, v)
      else (st, v)
    | _, _ => bad "bad-op"
  | "reader" =>
    match st.geo, op.str "id", op.nat "sc", op.nat "iv" with
    | some g, .ok id, .ok sc, .ok iv =>
      let code := checkReuse sc iv g.n st.piv
      let v := v.expect i opText (if code = 0 then "ok" else "err") obs
      -- Spec: a read window is served iff it is a whole number of its own buckets, its buckets are whole
      -- numbers of inner buckets and it divides the inner interval
      let servable := sc ≠ 0 && iv ≠ 0 && iv % sc = 0 && st.piv % iv = 0 && (iv / sc) % g.L = 0
      let v := if (obs == "ok") != servable then v.setViol s!"step={i} read window accepted/refused wrongly: sc={sc} iv={iv} over n={g.n} L={g.L} -> {obs}" else v
      let v := v.addTag (if code = 0 then "reader-ok" else s!"reader-refused-{code}")
      if code = 0 then ({ st with readers := (id, ⟨sc, iv⟩) :: st.readers.filter (fun p => p.1 != id) }, v) else (st, v)
    | _, _, _, _ => bad "bad-op"
  | "add" | "conc" =>
    match st.geo, op.nat "t" with
    | some g, .ok t =>
      let ev : Except String Ev :=
        if op.name == "add" then do
          let k ← (op.str "k") >>= parseKind
          let c ← op.nat "c"
          pure (.add k c)
        else do
          let c ← op.nat "c"
          pure (.conc c)
      match ev with
      | .error e => bad e
      | .ok ev =>
        match st.ring.record g t ev with
        | some r' =>
          let v := v.expect i opText "ok" obs
          let s0 := slotAt MetricBucket.zero st.ring (g.idx t)
          let v := if s0.stamp ≠ 0 && s0.stamp < g.start t then v.addTag "rollover" else v
          let v := if st.tlast ≠ 0 && t ≥ st.tlast + g.interval then v.addTag "idle-gap" else v
          let v := if t % g.L = 0 then v.addTag "write-on-boundary" else v
          ({ st with ring := r', evs := (t, ev) :: st.evs, tlast := max st.tlast t }, v)
        | none => (st, (v.expect i opText "err" obs).addTag "write-refused")
    | _, _ => bad "bad-op"
  | "count" =>
    match st.geo, op.nat "t" with
    | some g, .ok t =>
      let v := v.expect i opText s!"c={natsStr (kinds.map (fun k => st.ring.countWithTime g t k))}" obs
      -- Spec (count_with_time_lower / _upper / _eq) on the implementation's answer, for reads not before the last write
      let v := if t ≥ st.tlast then
          let impl := (listOf (obsField obs "c")).map (fun x => x.toNat?.getD 0)
          let lo := kinds.map (fun k => windowSum g.L st.evs (g.start t - g.interval + g.L) (g.start t) k)
          let hi := kinds.map (fun k => windowSum g.L st.evs (t - g.interval) (g.start t) k)
          let okLen := impl.length == kinds.length
          let inB := okLen && (List.zip impl (List.zip lo hi)).all (fun p => p.2.1 ≤ p.1 && p.1 ≤ p.2.2)
          let off := t % g.L ≠ 0 || g.start st.tlast < t
          let v := v.addTag (if off then "count" else "count-on-written-boundary")
          if !inB then v.setViol s!"step={i} count_with_time outside its bounds: every event of the n newest buckets {natsStr lo} <= reported <= events not older than the interval {natsStr hi}; impl [{obs}]"
          else if off && impl != hi then v.setViol s!"step={i} count_with_time differs from the recorded events: spec c={natsStr hi} impl [{obs}]"
          else v
        else v
      (st, v)
    | _, _ => bad "bad-op"
  | "read" =>
    match st.geo, op.str "id", op.nat "t" with
    | some g, .ok id, .ok t =>
      match st.readers.find? (fun p => p.1 == id) with
      | none => (st, v.expect i opText "noreader" obs)
      | some (_, rd) =>
        let v := v.expect i opText (modelRead g st.ring rd t) obs
        -- Spec, on the implementation's answers, for reads not earlier than the last write
        let v := if t ≥ st.tlast && rd.iv ≤ g.start t then
            let (s, q, qc, a, m) := specRead g st.evs rd t
            let v := v.addTag "read"
            let v := if t % g.L = 0 then v.addTag "read-on-boundary" else v
            let v := if s != "0,0,0,0,0" then v.addTag "read-nonzero" else v
            let v := if st.evs.any (fun e => e.1 - e.1 % g.L < g.start t - rd.iv + g.L) && s != "0,0,0,0,0" then v.addTag "read-excludes-old" else v
            if obsField obs "s" != s then v.setViol s!"step={i} window sums differ from the recorded events: spec s={s} impl [{obs}]"
            else if obsField obs "q" != q || obsField obs "qc" != qc then v.setViol s!"step={i} per-second rate differs: spec q={q} qc={qc} impl [{obs}]"
            else if obsField obs "a" != a then v.setViol s!"step={i} average rt differs: spec a={a} impl [{obs}]"
            else if obsField obs "m" != m then v.setViol s!"step={i} min rt differs: spec m={m} impl [{obs}]"
            else if obsField obs "xb" != toString (windowMaxBucket g.L st.evs (g.start t - rd.iv + g.L) (g.start t) .pass) then
              v.setViol s!"step={i} max of a single bucket differs: spec xb={windowMaxBucket g.L st.evs (g.start t - rd.iv + g.L) (g.start t) .pass} impl [{obs}]"
            else if obsField obs "xc" != toString (windowMaxConc g.L st.evs (g.start t - rd.iv + g.L) (g.start t)) then
              v.setViol s!"step={i} max concurrency differs: spec xc={windowMaxConc g.L st.evs (g.start t - rd.iv + g.L) (g.start t)} impl [{obs}]"
            else v
          else v
        -- qps_previous: Spec applies when every bucket of the earlier window is still resident
        let tp := t - rd.bucketLen
        let v := if t ≥ st.tlast && rd.iv ≤ g.start tp && g.start st.tlast < (g.start tp - rd.iv + g.L) + g.interval then
            let hi := g.start tp
            let qp := (F64.div (F64.ofNat (windowSum g.L st.evs (hi - rd.iv + g.L) hi .pass)) rd.intervalS).toStr
            if obsField obs "qp" != qp then v.setViol s!"step={i} previous-window rate differs: spec qp={qp} impl [{obs}]" else v.addTag "read-previous"
          else v
        (st, v)
    | _, _, _ => bad "bad-op"
  | _ => bad "bad-op"

def checkCase (lines : List (String × String)) : Verdict :=
  let rec go (st : St) (v : Verdict) (i : Nat) : List (String × String) → Verdict
    | [] => { v with steps := i }
    | (o, b) :: rest => let (st', v') := stepCase st v i o b; go st' v' (i + 1) rest
  go {} {} 0 lines

end Sentinel.DriverC02
