import Sentinel.F64
/-!
Model of `core/stat/base/{leap_array,bucket_leap_array,metric_bucket,sliding_window_metric}.rs`
and `core/base/stat.rs::check_validity_for_reuse_statistic` (C02; reused by C01, C03, C04, C08, C09).

`u64`/`u32` are `Nat`; the guards under which the Rust arithmetic does not wrap are hypotheses of
the theorems (`W ≤ start now`). One definition per Rust function, same branch structure.
-/
namespace Sentinel

/-- geometry of a `LeapArray`: `n = sample_count`, `L = bucket_len_ms` -/
structure Geo where
  n : Nat
  L : Nat
  deriving Repr, DecidableEq, Inhabited

namespace Geo
def interval (g : Geo) : Nat := g.n * g.L
/-- `calculate_start_stamp` -/
def start (g : Geo) (t : Nat) : Nat := t - t % g.L
/-- `time2idx` -/
def idx (g : Geo) (t : Nat) : Nat := (t / g.L) % g.n
end Geo

/-- a ring slot (`BucketWrap`): stamp 0 = never used -/
structure Slot (β : Type) where
  stamp : Nat
  val : β
  deriving Repr, Inhabited

def slotAt {β : Type} (dflt : β) (r : List (Slot β)) (i : Nat) : Slot β := r.getD i ⟨0, dflt⟩

/-- `LeapArray::new`: every slot unstamped with the default value -/
def ringInit {β : Type} (zero : β) (g : Geo) : List (Slot β) := List.replicate g.n ⟨0, zero⟩

/-- `get_bucket_of_time(t)` followed by an update `f` of the returned bucket's value.
Branches: unstamped → stamp only; same bucket → reuse; older → stamp + `reset`; newer → error. -/
def ringWrite {β : Type} (zero : β) (g : Geo) (r : List (Slot β)) (t : Nat) (f : β → β) : Option (List (Slot β)) :=
  let i := g.idx t
  let tgt := g.start t
  let s := slotAt zero r i
  if s.stamp = 0 then some (r.set i ⟨tgt, f s.val⟩)
  else if s.stamp = tgt then some (r.set i ⟨tgt, f s.val⟩)
  else if s.stamp < tgt then some (r.set i ⟨tgt, f zero⟩)
  else none

/-- `BucketWrap::is_deprecated` -/
def deprecated (g : Geo) (now s : Nat) : Bool := now > s && now - s > g.interval

/-- the filter of `SlidingWindowMetric::satisfied_buckets(now)` for a reader of width `W`:
`!is_deprecated(now, inner interval) && start <= stamp && stamp <= end`
with `end = calculate_start_stamp(now)`, `start = end - W + L` (inner geometry) -/
def inWin (g : Geo) (W now s : Nat) : Bool :=
  !deprecated g now s && g.start now - W + g.L ≤ s && s ≤ g.start now

/-- the filter of `LeapArray::get_valid_values(now)` -/
def validAt (g : Geo) (now s : Nat) : Bool := !deprecated g now s

/-! ### MetricBucket -/

inductive Kind where
  | pass | block | complete | error | rt
  deriving Repr, DecidableEq, Inhabited

structure MetricBucket where
  pass : Nat := 0
  block : Nat := 0
  complete : Nat := 0
  error : Nat := 0
  rt : Nat := 0
  minRt : Nat := 60000        -- DEFAULT_STATISTIC_MAX_RT
  maxConc : Nat := 0
  deriving Repr, DecidableEq, Inhabited

namespace MetricBucket
/-- `MetricBucket::default()` and the state after `reset()` -/
def zero : MetricBucket := {}

def get (b : MetricBucket) : Kind → Nat
  | .pass => b.pass
  | .block => b.block
  | .complete => b.complete
  | .error => b.error
  | .rt => b.rt

/-- `MetricBucket::add` (`add_rt` for `Rt`: also lowers `min_rt`) -/
def add (b : MetricBucket) (k : Kind) (c : Nat) : MetricBucket :=
  match k with
  | .pass => { b with pass := b.pass + c }
  | .block => { b with block := b.block + c }
  | .complete => { b with complete := b.complete + c }
  | .error => { b with error := b.error + c }
  | .rt => { b with rt := b.rt + c, minRt := if c < b.minRt then c else b.minRt }

/-- `MetricBucket::update_concurrency` -/
def updateConcurrency (b : MetricBucket) (c : Nat) : MetricBucket :=
  if c > b.maxConc then { b with maxConc := c } else b
end MetricBucket

/-- a recorded event -/
inductive Ev where
  | add (k : Kind) (c : Nat)
  | conc (c : Nat)
  deriving Repr, DecidableEq, Inhabited

def Ev.apply (b : MetricBucket) : Ev → MetricBucket
  | .add k c => b.add k c
  | .conc c => b.updateConcurrency c

abbrev BRing := List (Slot MetricBucket)

/-- `BucketLeapArray::add_count_with_time` / `update_concurrency_with_time` -/
def BRing.record (g : Geo) (r : BRing) (t : Nat) (e : Ev) : Option BRing :=
  ringWrite MetricBucket.zero g r t (fun b => e.apply b)

/-- the loop `for bucket in &self.array { if cond { acc = f acc bucket } }` -/
def foldSlots {β γ : Type} (zero : β) (g : Geo) (r : List (Slot β)) (cond : Nat → Bool) (f : γ → β → γ) (init : γ) : γ :=
  (List.range g.n).foldl (fun acc i => let s := slotAt zero r i; if cond s.stamp then f acc s.val else acc) init

/-- `BucketLeapArray::count_with_time` -/
def BRing.countWithTime (g : Geo) (r : BRing) (now : Nat) (k : Kind) : Nat :=
  foldSlots MetricBucket.zero g r (validAt g now) (fun acc b => acc + b.get k) 0

/-! ### construction checks -/

/-- `LeapArray::new` accepts iff -/
def leapNewOk (sampleCount intervalMs : Nat) : Bool := sampleCount ≠ 0 && intervalMs % sampleCount = 0

/-- `check_validity_for_statistic` -/
def statOk (sampleCount intervalMs : Nat) : Bool :=
  !(intervalMs = 0 || sampleCount = 0 || intervalMs % sampleCount ≠ 0)

/-- `check_validity_for_reuse_statistic`: 0 = ok, 1 = reader params illegal, 2 = parent params illegal,
3 = not reusable -/
def checkReuse (sc iv psc piv : Nat) : Nat :=
  if !statOk sc iv then 1
  else if !statOk psc piv then 2
  else if piv % iv ≠ 0 then 3
  else if (iv / sc) % (piv / psc) ≠ 0 then 3
  else 0

/-- `SlidingWindowMetric` (read-only view of width `iv` with `sc` buckets over an inner array) -/
structure Reader where
  sc : Nat
  iv : Nat
  deriving Repr, DecidableEq, Inhabited

def Reader.bucketLen (rd : Reader) : Nat := rd.iv / rd.sc

/-- `sum_with_time` -/
def BRing.sumWithTime (g : Geo) (r : BRing) (rd : Reader) (now : Nat) (k : Kind) : Nat :=
  foldSlots MetricBucket.zero g r (inWin g rd.iv now) (fun acc b => acc + b.get k) 0

/-- `interval_s` = `interval_ms as f64 / 1000.0` -/
def Reader.intervalS (rd : Reader) : F64 := F64.div (F64.ofNat rd.iv) (F64.ofNat 1000)

/-- `qps_with_time` = `sum as f64 / interval_s` -/
def BRing.qpsWithTime (g : Geo) (r : BRing) (rd : Reader) (now : Nat) (k : Kind) : F64 :=
  F64.div (F64.ofNat (r.sumWithTime g rd now k)) rd.intervalS

/-- `qps_previous` reads at `now - reader bucket length` -/
def BRing.qpsPrevious (g : Geo) (r : BRing) (rd : Reader) (now : Nat) (k : Kind) : F64 :=
  r.qpsWithTime g rd (now - rd.bucketLen) k

/-- `avg_rt` -/
def BRing.avgRt (g : Geo) (r : BRing) (rd : Reader) (now : Nat) : F64 :=
  let completed := r.sumWithTime g rd now .complete
  if completed = 0 then F64.zero
  else F64.div (F64.ofNat (r.sumWithTime g rd now .rt)) (F64.ofNat completed)

/-- `min_rt` -/
def BRing.minRt (g : Geo) (r : BRing) (rd : Reader) (now : Nat) : Nat :=
  foldSlots MetricBucket.zero g r (inWin g rd.iv now) (fun acc b => min acc b.minRt) 60000

/-- `max_of_single_bucket` -/
def BRing.maxOfSingleBucket (g : Geo) (r : BRing) (rd : Reader) (now : Nat) (k : Kind) : Nat :=
  foldSlots MetricBucket.zero g r (inWin g rd.iv now) (fun acc b => max acc (b.get k)) 0

/-- `max_concurrency` -/
def BRing.maxConcurrency (g : Geo) (r : BRing) (rd : Reader) (now : Nat) : Nat :=
  foldSlots MetricBucket.zero g r (inWin g rd.iv now) (fun acc b => max acc b.maxConc) 0

/-! ### Spec: computed directly from the recorded events -/

/-- a timed event: (time, event) ; the history lists the newest first -/
abbrev TEv := Nat × Ev

def Ev.amount (k : Kind) : Ev → Nat
  | .add k' c => if k' = k then c else 0
  | .conc _ => 0

/-- Σ of `k`-amounts over the events whose bucket start (bucket length `L`) lies in `[lo, hi]` -/
def windowSum (L : Nat) (evs : List TEv) (lo hi : Nat) (k : Kind) : Nat :=
  ((evs.filter (fun e => lo ≤ e.1 - e.1 % L && e.1 - e.1 % L ≤ hi)).map (fun e => e.2.amount k)).sum

/-- the response time carried by an event (60000 = none) -/
def Ev.rtVal : Ev → Nat
  | .add .rt c => c
  | _ => 60000

/-- min of the response times recorded in `[lo, hi]`, default 60000 -/
def windowMinRt (L : Nat) (evs : List TEv) (lo hi : Nat) : Nat :=
  ((evs.filter (fun e => lo ≤ e.1 - e.1 % L && e.1 - e.1 % L ≤ hi)).map (fun e => e.2.rtVal)).foldr min 60000

/-- the concurrency value carried by an event (0 = none) -/
def Ev.concVal : Ev → Nat
  | .conc c => c
  | _ => 0

/-- Spec of `max_of_single_bucket`: the largest per-bucket total of `k` among the buckets, inside `[lo, hi]`, that hold an
event (empty buckets count 0): for every event of the window, the total of its own bucket -/
def windowMaxBucket (L : Nat) (evs : List TEv) (lo hi : Nat) (k : Kind) : Nat :=
  ((evs.filter (fun e => lo ≤ e.1 - e.1 % L && e.1 - e.1 % L ≤ hi)).map
    (fun e => windowSum L evs (e.1 - e.1 % L) (e.1 - e.1 % L) k)).foldr max 0

/-- Spec of `max_concurrency`: the largest concurrency value recorded by an event whose bucket lies in `[lo, hi]` -/
def windowMaxConc (L : Nat) (evs : List TEv) (lo hi : Nat) : Nat :=
  ((evs.filter (fun e => lo ≤ e.1 - e.1 % L && e.1 - e.1 % L ≤ hi)).map (fun e => e.2.concVal)).foldr max 0

/-- Spec of `count_with_time` (raw `is_deprecated` filter): Σ of `k`-amounts over the events whose bucket start is
`≥ now - interval`, as far as the bucket has not been overwritten (`resident`) -/
def windowSumIf (L : Nat) (evs : List TEv) (p : Nat → Bool) (k : Kind) : Nat :=
  ((evs.filter (fun e => p (e.1 - e.1 % L))).map (fun e => e.2.amount k)).sum

end Sentinel
