import Sentinel.Proto
import Sentinel.DriverC13
import Sentinel.DriverC02
import Sentinel.DriverWorld
import Sentinel.DriverC10
import Sentinel.DriverC12
import Sentinel.DriverC17
import Sentinel.DriverC18
import Sentinel.DriverC20
import Sentinel.DriverConc
import Sentinel.DriverC19
/-! Generic driver: reads a trace (`case <id>` headers, `<op> -> <obs>` lines) from stdin, checks
every case with the property's `checkCase`, prints one line per case. -/
namespace Sentinel

def checkerFor (prop : String) : Option (List (String × String) → Verdict) :=
  match prop with
  | "C02" => some DriverC02.checkCase
  | "C01" | "C03" | "C04" | "C05" | "C06" | "C07" | "C08" | "C09" | "C11" => some DriverWorld.checkCase
  | "C10" => some DriverC10.checkCase
  | "C12" => some DriverC12.checkCase
  | "C13" => some DriverC13.checkCase
  | "C14" | "C15" | "C16" => some (DriverConc.checkCaseFor prop)
  | "C17" => some DriverC17.checkCase
  | "C18" => some DriverC18.checkCase
  | "C20" => some DriverC20.checkCase
  | "C19" => some DriverC19.checkCase
  | _ => none

def renderVerdict (id : String) (v : Verdict) : String :=
  let c := match v.diff with | none => "corr=ok" | some m => s!"corr=DIFF {m}"
  let s := match v.viol with | none => "spec=ok" | some m => s!"spec=VIOL {m}"
  s!"case {id} steps={v.steps} tags={",".intercalate v.tags.reverse} {s} {c}"

partial def readAll (h : IO.FS.Stream) (acc : Array String) : IO (Array String) := do
  let line ← h.getLine
  if line.isEmpty then return acc
  let l := if line.endsWith "\n" then (line.dropEnd 1).toString else line
  readAll h (acc.push l)

def runDriver (prop : String) : IO UInt32 := do
  match checkerFor prop with
  | none => IO.eprintln s!"unknown property {prop}"; return 2
  | some chk =>
    let lines ← readAll (← IO.getStdin) #[]
    let mut curId : String := "0"
    let mut cur : Array (String × String) := #[]
    let mut started := false
    for l in lines do
      if l.startsWith "case " then
        if started then IO.println (renderVerdict curId (chk cur.toList))
        curId := (l.drop 5).toString
        cur := #[]
        started := true
      else if l.trimAscii.toString == "" || l.startsWith "#" then
        pure ()
      else
        started := true
        cur := cur.push (splitTrace l)
    if started then IO.println (renderVerdict curId (chk cur.toList))
    return 0

end Sentinel
