import Sentinel.Proto
import Sentinel.Codec
import Sentinel.MetricLine
/-! Driver for C18: schema codec vs serde's derive layer; line codec vs `MetricItem`'s Display / from_string. -/
namespace Sentinel.DriverC18
open Sentinel

def hexDigit (n : Nat) : Char := if n < 10 then Char.ofNat (48 + n) else Char.ofNat (87 + n)

def hexOfBytes (b : ByteArray) : String :=
  if b.size = 0 then "-" else
  String.ofList (b.toList.flatMap (fun x => [hexDigit (x.toNat / 16), hexDigit (x.toNat % 16)]))

def hexStr (s : String) : String := hexOfBytes s.toUTF8

def hexVal (c : Char) : Option Nat :=
  if '0' ≤ c ∧ c ≤ '9' then some (c.toNat - 48) else if 'a' ≤ c ∧ c ≤ 'f' then some (c.toNat - 87) else none

def bytesOfHex (s : String) : Option ByteArray :=
  if s == "-" then some ByteArray.empty else
  let rec go : List Char → ByteArray → Option ByteArray
    | [], acc => some acc
    | [_], _ => none
    | a :: b :: rest, acc =>
      match hexVal a, hexVal b with
      | some x, some y => go rest (acc.push (UInt8.ofNat (x * 16 + y)))
      | _, _ => none
  go s.toList ByteArray.empty

def strOfHex (s : String) : Option String := (bytesOfHex s).bind String.fromUTF8?

def flStr : Fl → String
  | .nan => "nan" | .posInf => "inf" | .negInf => "-inf"
  | .nonneg v => v.toStr
  | .neg v => "-" ++ v.toStr

def atomStr : JAtom → String
  | .null => "z"
  | .bool b => if b then "b:1" else "b:0"
  | .nat n => s!"n:{n}"
  | .neg n => s!"i:-{n}"
  | .flt x => s!"f:{flStr x}"
  | .str s => s!"s:{hexStr s}"

def sortStrs (l : List String) : List String := (l.toArray.qsort (· < ·)).toList

def jvalStr : JVal → String
  | .atom a => atomStr a
  | .arr => "a"
  | .obj kvs => "m:" ++ ",".intercalate (sortStrs (kvs.map (fun p => s!"{hexStr p.1}={atomStr p.2}")))

def docStr (d : Doc) : String := ";".intercalate (d.map (fun p => s!"{p.1}~{jvalStr p.2}"))

def parseFlTok (s : String) : Except String Fl :=
  if s == "nan" then .ok .nan else if s == "inf" then .ok .posInf else if s == "-inf" then .ok .negInf
  else if s.startsWith "-" then do
    let f ← parseFrac "f" (s.drop 1).toString
    if f.num = 0 then pure (.nonneg F64.zero) else pure (.neg (F64.roundDiv f.num f.den))
  else do
    let f ← parseFrac "f" s
    pure (.nonneg (F64.roundDiv f.num f.den))

def parseAtom (tv : String) : Except String JAtom :=
  if tv == "z" then .ok .null else
  match splitFirst tv ":" with
  | some ("s", v) => match strOfHex v with | some s => .ok (.str s) | none => .error s!"bad-op: hex {v}"
  | some ("n", v) => (parseNat "n" v).map JAtom.nat
  | some ("i", v) => (parseNat "i" (v.drop 1).toString).map JAtom.neg
  | some ("f", v) => (parseFlTok v).map JAtom.flt
  | some ("b", v) => .ok (.bool (v == "1"))
  | _ => .error s!"bad-op: typed value {tv}"

def parseJVal (tv : String) : Except String JVal :=
  if tv == "a" then .ok .arr else
  match splitFirst tv ":" with
  | some ("m", v) => do
    let kvs ← (listOf v).mapM (fun kv => match splitFirst kv "=" with
      | some (k, a) => do
        let key ← match strOfHex k with | some s => pure s | none => throw s!"bad-op: hex {k}"
        let at_ ← parseAtom a
        pure (key, at_)
      | none => throw s!"bad-op: map entry {kv}")
    pure (.obj kvs)
  | _ => (parseAtom tv).map JVal.atom

def parseDoc (d : String) : Except String Doc :=
  if d == "-" then .ok [] else
  (d.splitOn ";").mapM (fun e => match splitFirst e "~" with
    | some (k, tv) => do let v ← parseJVal tv; pure (k, v)
    | none => throw s!"bad-op: doc entry {e}")

def nameOf (s : String) : String := if s == "-" then "" else s.replace "_" " "

def getStr (op : Op) (k khex : String) : Except String String :=
  match op.get? khex with
  | some h => match strOfHex h with | some s => .ok s | none => .error s!"bad-op: {khex}"
  | none => .ok (nameOf ((op.get? k).getD "-"))

/-- the record an `rt` / `mut` line describes, in schema order -/
def recOf (op : Op) : Except String (String × Rec) := do
  let fam ← op.str "fam"
  let id ← match op.get? "idhex" with
    | some h => (match strOfHex h with | some s => pure s | none => throw "bad-op: idhex")
    | none => op.str "id"
  let res ← getStr op "res" "reshex"
  let n (k : String) : Except String FVal := do let v ← op.natD k 0; pure (.nat v)
  match fam with
  | "flow" =>
    let cs ← op.str "calc"
    let ctl ← op.str "ctl"
    let thr ← (op.str "thr") >>= parseFlTok
    pure (fam, [.str id, .str res, .str (nameOf ((op.get? "ref").getD "-")),
      .enm (if cs == "d" then "Direct" else if cs == "w" then "WarmUp" else if cs == "m" then "MemoryAdaptive" else "Custom"),
      .enm (if ctl == "r" then "Reject" else if ctl == "t" then "Throttling" else "Custom"),
      .enm (if (op.get? "rel") == some "a" then "Associated" else "Current"), .flt thr,
      ← n "period", ← n "cold", ← n "maxq", ← n "ivl", ← n "lmu", ← n "hmu", ← n "lwm", ← n "hwm"])
  | "br" =>
    let s ← op.str "strat"
    let thr ← (op.str "thr") >>= parseFlTok
    pure (fam, [.str id, .str res,
      .enm (if s == "s" then "SlowRequestRatio" else if s == "r" then "ErrorRatio" else if s == "c" then "ErrorCount" else "Custom"),
      ← n "retry", ← n "minreq", ← n "ivl", ← n "buckets", ← n "maxrt", .flt thr])
  | "hs" =>
    let idxS := (op.get? "idx").getD "0"
    let idx ← match idxS.toInt? with | some i => pure i | none => throw s!"bad-op: idx {idxS}"
    let ctl := (op.get? "ctl").getD "r"
    let spec ← (op.list "spec").mapM (fun kv => match splitFirst kv ":" with
      | some (k, v) => do let x ← parseNat "spec" v; pure (k, x)
      | none => throw s!"bad-op: spec {kv}")
    pure (fam, [.str id, .str res, .enm (if (op.get? "metric") == some "c" then "Concurrency" else "QPS"),
      .enm (if ctl == "r" then "Reject" else if ctl == "t" then "Throttling" else "Custom"),
      .int idx, .str (nameOf ((op.get? "key").getD "-")), ← n "thr", ← n "maxq", ← n "burst", ← n "dur", ← n "cap", .map spec])
  | "iso" => pure (fam, [.str id, .str res, .enm "Concurrency", ← n "thr"])
  | "sys" =>
    let m ← op.str "metric"
    let thr ← (op.str "thr") >>= parseFlTok
    pure (fam, [.str id,
      .enm (if m == "load" then "Load" else if m == "rt" then "AvgRT" else if m == "conc" then "Concurrency" else if m == "qps" then "InboundQPS" else "CpuUsage"),
      .flt thr, .enm (if (op.get? "strat") == some "bbr" then "BBR" else "NoAdaptive")])
  | _ => throw s!"bad-op: family {fam}"

def obsField (obs : String) (k : String) : String :=
  match (tokens obs).filterMap (fun t => match splitFirst t "=" with
      | some (a, b) => if a == k then some b else none
      | none => none) with
  | v :: _ => v
  | [] => ""

def itemOf (op : Op) : Except String MItem := do
  let res ← match strOfHex ((op.get? "res").getD "-") with | some s => pure s | none => throw "bad-op: res"
  pure { resource := res.toList, rtype := rtypeOfU8 (← op.natD "rtype" 0), ts := ← op.nat "ts", pass := ← op.natD "pass" 0, block := ← op.natD "block" 0,
         complete := ← op.natD "complete" 0, error := ← op.natD "error" 0, rt := ← op.natD "rt" 0, occupied := ← op.natD "occ" 0,
         conc := ← op.natD "conc" 0 }

def itemStr (it : MItem) : String :=
  s!"res={hexStr (String.ofList it.resource)} rtype={it.rtype} ts={it.ts} pass={it.pass} block={it.block} complete={it.complete} error={it.error} rt={it.rt} occ={it.occupied} conc={it.conc}"

/-- drop the `id~…` entry of a canonical record string -/
def dropId (s : String) : String := ";".intercalate ((s.splitOn ";").filter (fun e => !e.startsWith "id~"))

def stepCase (v : Verdict) (i : Nat) (opText obs : String) : Verdict :=
  let op := Op.parse opText
  let v := if obs.startsWith "panic" then v.setViol s!"step={i} [{opText}] panicked: {obs}" else v
  if obs.startsWith "panic" then v else
  match op.name with
  | "rt" =>
    match recOf op with
    | .error e => v.setDiff s!"step={i} {e}"
    | .ok (fam, rec) =>
      match schemaOf fam with
      | none => v.setDiff s!"step={i} family"
      | some sch =>
        let custom := rec.any (fun x => x == .enm "Custom")
        let fine := Schema.wellTyped sch rec
        let model :=
          if custom then "ser=err" else
          let doc := toDoc sch rec
          let back := match fromDoc sch doc with
            | some r' => if r' == rec then "back=ok eq=1 same=1" else "back=ok eq=0 same=0"
            | none => "back=err"
          s!"doc={docStr doc} order={",".intercalate (sch.map (·.name))} {back}"
        let v := v.expect i opText model obs
        let v := v.addTag (if custom then s!"{fam}:custom-variant" else if fine then s!"{fam}:roundtrip" else s!"{fam}:non-finite")
        -- Spec: a serialisable rule comes back equal, field for field
        if fine && !custom && !((obsField obs "back") == "ok" && (obsField obs "eq") == "1" && (obsField obs "same") == "1") then
          v.setViol s!"step={i} [{opText}] the rule does not survive the JSON round trip unchanged: {obs}"
        else v
  | "parse" =>
    match (op.str "fam") >>= (fun f => match schemaOf f with | some s => .ok (f, s) | none => .error "family") with
    | .error e => v.setDiff s!"step={i} {e}"
    | .ok (fam, sch) =>
      match ((op.get? "docs").getD "-").splitOn "|" |>.mapM parseDoc with
      | .error e => v.setDiff s!"step={i} {e}"
      | .ok docs =>
        let noId := docs.map (fun d => !(d.any (fun p => p.1 == "id")))
        let model := match fromDocs sch docs with
          | none => "err"
          | some recs => "ok " ++ "|".intercalate (recs.map (fun r => docStr (toDoc sch r)))
        -- a missing id is a fresh uuid in the implementation: compare without it
        let strip (s : String) : String :=
          if s.startsWith "ok " then
            "ok " ++ "|".intercalate (((s.drop 3).toString.splitOn "|").zipWith (fun e b => if b then dropId e else e) noId)
          else s
        let v := v.expect i opText (strip model) (strip obs)
        let dropped := docs.any (fun d => sch.any (fun f => !(d.any (fun p => p.1 == f.name))))
        let v := if model == "err" then v.addTag s!"{fam}:doc-error" else if dropped then v.addTag s!"{fam}:defaults" else v.addTag s!"{fam}:doc-ok"
        v
  | "mut" =>
    if obs == "ok" || obs == "err" || obs == "notutf8" || obs == "ser=err" then v.addTag "mutated-text"
    else if obs.startsWith "panic" then v.setViol s!"step={i} a malformed document made the rule parser panic instead of reporting an error: {obs}"
    else v.setDiff s!"step={i} unexpected {obs}"
  | "item" =>
    match itemOf op with
    | .error e => v.setDiff s!"step={i} {e}"
    | .ok it =>
      let line := it.toLine
      let back := match MItem.fromLine line with | some b => "ok " ++ itemStr b | none => "err"
      let v := v.expect i opText s!"line={hexStr (String.ofList line)} back={back}" obs
      let want := "ok " ++ itemStr { it with resource := sanitize it.resource }
      let v := v.addTag (if it.resource.contains '|' then "item:separator-in-name" else "item")
      -- Spec: the line parses back to the same item, the name altered only by the separator replacement
      let got := (splitFirst obs "back=").map (·.2)
      if got != some want then v.setViol s!"step={i} [{opText}] the metric line does not parse back to the item: want [{want}] got [{got.getD ""}]" else v
  | "line" =>
    match (bytesOfHex ((op.get? "raw").getD "-")) with
    | none => v.setDiff s!"step={i} bad hex"
    | some bytes =>
      match String.fromUTF8? bytes with
      | none => v.expect i opText "notutf8" obs
      | some s =>
        let model := match MItem.fromLine s.toList with | some b => "ok " ++ itemStr b | none => "err"
        (v.expect i opText model obs).addTag (if model == "err" then "line:error" else "line:ok")
  | _ => v

def checkCase (lines : List (String × String)) : Verdict :=
  let rec go (v : Verdict) (i : Nat) : List (String × String) → Verdict
    | [] => { v with steps := i }
    | (o, obs) :: rest => go (stepCase v i o obs) (i + 1) rest
  go {} 0 lines

end Sentinel.DriverC18
