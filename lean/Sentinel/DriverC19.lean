import Sentinel.Proto
import Sentinel.MetricLog
/-! Driver for C19: the metric log writer / searcher against the real ones. The trace of a case is

```
mlog.new size= files= now=                    -> ok | <listing>        (or err ..)
stream                                        -> C L19675.0;C I19675.0;A I19675.0 <hex>;R L19674.2   (system calls seen, in order)
mlog.write ts= items=<item>;<item>            -> ok | <listing>
mlog.snew s=<name> [crash=1]                  -> ok
mlog.range s= b= e= res=<hex>                 -> ok <items>   | err ..  | panic ..
mlog.lines s= b= n=                           -> ok <items>
crash k=<events> j=<bytes of the next event>  -> ok            (the directory is now that prefix of the observed stream)
```
-/
namespace Sentinel.DriverC19
open Sentinel Sentinel.MLog

def hexDigit (n : Nat) : Char := if n < 10 then Char.ofNat (48 + n) else Char.ofNat (87 + n)
def hexOf (bs : Bytes) : String :=
  if bs.isEmpty then "-" else String.ofList (bs.flatMap (fun x => [hexDigit (x / 16), hexDigit (x % 16)]))
def hexVal (c : Char) : Option Nat :=
  if '0' ≤ c ∧ c ≤ '9' then some (c.toNat - 48) else if 'a' ≤ c ∧ c ≤ 'f' then some (c.toNat - 87) else none
def unhex (s : String) : Option Bytes :=
  if s == "-" then some [] else
  let rec go : List Char → List Nat → Option Bytes
    | [], acc => some acc.reverse
    | [_], _ => none
    | a :: b :: rest, acc =>
      match hexVal a, hexVal b with
      | some x, some y => go rest ((x * 16 + y) :: acc)
      | _, _ => none
  go s.toList []

def fidStr (isIdx : Bool) (f : FileId) : String := (if isIdx then "I" else "L") ++ s!"{f.day}.{f.no}"

def parseFid (s : String) : Option (Bool × FileId) :=
  let isIdx := s.startsWith "I"
  match ((s.drop 1).toString.splitOn ".").map String.toNat? with
  | [some d, some n] => some (isIdx, ⟨d, n⟩)
  | _ => none

def actStr : Act → String
  | .create i f => s!"C {fidStr i f}"
  | .append i f bs => s!"A {fidStr i f} {hexOf bs}"
  | .remove i f => s!"R {fidStr i f}"

def parseAct (s : String) : Option Act :=
  match s.splitOn " " with
  | ["C", f] => (parseFid f).map (fun p => Act.create p.1 p.2)
  | ["R", f] => (parseFid f).map (fun p => Act.remove p.1 p.2)
  | ["A", f, h] => do let p ← parseFid f; let bs ← unhex h; pure (Act.append p.1 p.2 bs)
  | _ => none

/-- consecutive appends to one file are one event (how the bytes are cut into `write` calls is not compared) -/
def mergeActs : List Act → List Act
  | [] => []
  | a :: rest =>
    match a, mergeActs rest with
    | .append i f bs, .append i' f' bs' :: more => if i = i' ∧ f = f' then .append i f (bs ++ bs') :: more else a :: .append i' f' bs' :: more
    | _, r => a :: r

def streamStr (acts : List Act) : String :=
  if acts.isEmpty then "-" else ";".intercalate ((mergeActs acts).map actStr)

def itemStr (it : MItem) : String :=
  s!"{it.ts},{hexOf (utf8Encode it.resource)},{it.rtype},{it.pass},{it.block},{it.complete},{it.error},{it.rt},{it.occupied},{it.conc}"

def itemsStr (r : Option (List MItem)) : String :=
  match r with
  | none => "err"
  | some [] => "ok"
  | some l => "ok " ++ ";".intercalate (l.map itemStr)

/-- an item of a write op: `reshex,rtype,pass,block,complete,error,rt,occ,conc` -/
def parseWItem (ts : Nat) (s : String) : Option MItem :=
  match s.splitOn "," with
  | [r, ty, p, b, c, e, rt, occ, cc] => do
    let rb ← unhex r
    let rc ← decodeUtf8 rb
    pure { resource := rc, rtype := (← ty.toNat?), ts := ts, pass := (← p.toNat?), block := (← b.toNat?), complete := (← c.toNat?),
           error := (← e.toNat?), rt := (← rt.toNat?), occupied := (← occ.toNat?), conc := (← cc.toNat?) }
  | _ => none

/-- an item of a search result: `ts,reshex,rtype,...` -/
def parseRItem (s : String) : Option MItem :=
  match s.splitOn "," with
  | ts :: rest => do let t ← ts.toNat?; parseWItem t (",".intercalate rest)
  | _ => none

def parseResult (obs : String) : Option (List MItem) :=
  if obs == "ok" then some []
  else if obs.startsWith "ok " then ((obs.drop 3).toString.splitOn ";").mapM parseRItem
  else none

def listing (fs : FS) : String :=
  let ids := ((fs.logs.map (·.1)) ++ (fs.idxs.map (·.1))).foldr (fun f acc => if acc.contains f then acc else insertId f acc) []
  let ents := ids.flatMap (fun f =>
    (match fs.logs.get? f with | some b => [s!"{fidStr false f}:{b.length}"] | none => []) ++
    (match fs.idxs.get? f with | some b => [s!"{fidStr true f}:{b.length}"] | none => []))
  if ents.isEmpty then "-" else " ".intercalate ents

def countNL (bs : Bytes) : Nat := bs.count 10

/-- `a` is a subsequence of `b` -/
def subseq [BEq α] : List α → List α → Bool
  | [], _ => true
  | _ :: _, [] => false
  | a :: as, b :: bs => if a == b then subseq as bs else subseq (a :: as) bs


/-- Spec bookkeeping: which accepted item went to which log file, read off the observed stream (a log append with `c`
newlines carries the next `c` accepted items); removing or re-creating a file drops its items -/
structure Held where
  pending : List MItem := []            -- accepted, line not yet seen in the stream
  placed : List (FileId × MItem) := []  -- in write order
  creates : Nat := 0                    -- log files created so far
  ever : List (Nat × MItem) := []       -- every placed item with the number of its file (1 = first file created)
  deriving Inhabited

def Held.apply (h : Held) : Act → Held
  | .append false f bs =>
    let c := countNL bs
    { h with pending := h.pending.drop c, placed := h.placed ++ (h.pending.take c).map (fun it => (f, it)),
             ever := h.ever ++ (h.pending.take c).map (fun it => (h.creates, it)) }
  | .create false f => { h with placed := h.placed.filter (·.1 ≠ f), creates := h.creates + 1 }
  | .remove false f => { h with placed := h.placed.filter (·.1 ≠ f) }
  | _ => h

/-- retention: the items of the `maxFiles` newest log files must still be there -/
def Held.retentionOk (h : Held) (maxFiles : Nat) : Bool :=
  subseq ((h.ever.filter (fun p => p.1 + maxFiles > h.creates)).map (·.2)) (h.placed.map (·.2))

/-- does the index file hold a complete entry for this second? -/
def hasEntry : Bytes → Nat → Bool
  | s0 :: s1 :: s2 :: s3 :: s4 :: s5 :: s6 :: s7 :: _ :: _ :: _ :: _ :: _ :: _ :: _ :: _ :: rest, sec =>
    unbe8 s0 s1 s2 s3 s4 s5 s6 s7 == sec || hasEntry rest sec
  | _, _ => false

/-- the first `k` events and `j` bytes of the next one: the model's own notion of a crash state -/
def prefixActs (acts : List Act) (k j : Nat) : List Act := crashPrefix acts k j

structure Searcher where
  crash : Bool
  cache : Cache := {}
  deriving Inhabited

structure St where
  w : Option Writer := none
  created : Bool := false
  specLatest : Nat := 0
  maxFiles : Nat := 0
  mfs : FS := {}                  -- directory according to the model's own actions
  ofs : FS := {}                  -- directory according to the observed stream
  ostream : List Act := []        -- observed stream so far (merged per operation)
  pendingActs : Option (List Act) := none   -- the model's actions of the last operation, not yet compared
  allItems : List MItem := []     -- every accepted item, in order (stored form)
  held : Held := {}
  cfs : FS := {}                  -- crash directory
  cheld : Held := {}
  searchers : List (String × Searcher) := []
  v : Verdict := {}
  deriving Inhabited

def St.tag (s : St) (t : String) : St := { s with v := s.v.addTag t }

/-- an operation's actions were not followed by a `stream` line (no system call log): the model's are adopted -/
def St.flushPending (s : St) : St :=
  match s.pendingActs with
  | none => s
  | some acts =>
    let m := mergeActs acts
    { s with pendingActs := none, ofs := s.ofs.applyAll m, ostream := s.ostream ++ m, held := m.foldl Held.apply s.held,
             v := if acts.isEmpty then s.v else s.v.addTag "nostream" }

def okPart (obs : String) : String := ((obs.splitOn " | ").headD "").trimAscii.toString
def lsPart (obs : String) : Option String := match obs.splitOn " | " with | [_, l] => some l.trimAscii.toString | _ => none

def classOf (obs : String) : String :=
  if obs.startsWith "ok" then "ok" else if obs.startsWith "err" then "err" else if obs.startsWith "panic" then "panic" else obs

def getSearcher (s : St) (name : String) : Option Searcher := (s.searchers.find? (·.1 == name)).map (·.2)
def setSearcher (s : St) (name : String) (x : Searcher) : St :=
  { s with searchers := (name, x) :: s.searchers.filter (·.1 != name) }

def stepOp (s0 : St) (n : Nat) (opText obs : String) : St :=
  let o := Op.parse opText
  let s := if o.name == "stream" then s0 else s0.flushPending
  let s := { s with v := { s.v with steps := s.v.steps + 1 } }
  let bad (m : String) : St := { s with v := s.v.setDiff s!"step={n} {m}" }
  match o.name with
  | "mlog.new" =>
    match o.nat "size", o.nat "files", o.nat "now" with
    | .ok size, .ok files, .ok now =>
      match Writer.new s.mfs size files now with
      | none => { s with v := s.v.expect n opText "err" (classOf obs) }
      | some (w, acts) =>
        let mfs := s.mfs.applyAll acts
        let v := s.v.expect n opText "ok" (classOf obs)
        let v := match lsPart obs with | some l => v.expect n (opText ++ " [listing]") (listing mfs) l | none => v
        { s with w := some w, created := true, specLatest := now / 1000, maxFiles := files, mfs := mfs, pendingActs := some acts, v := v }
    | _, _, _ => bad "bad-op mlog.new"
  | "mlog.write" =>
    match o.nat "ts", o.get? "items" with
    | .ok ts, some itemsS =>
      -- `MetricItem::verif_new` turns the number into a `ResourceType` (unknown numbers become 0)
      match (if itemsS == "-" then some [] else ((itemsS.splitOn ";").mapM (parseWItem ts)).map (·.map (fun it => { it with rtype := rtypeOfU8 it.rtype }))) with
      | none => bad "bad-op items"
      | some items =>
        match s.w with
        | none => { s with v := s.v.expect n opText "err" (classOf obs) }
        | some w =>
          let (w', acts, r) := w.write s.mfs ts items
          let mfs := s.mfs.applyAll acts
          let v := s.v.expect n opText (if r == .ok then "ok" else "err") (classOf (okPart obs))
          let v := match lsPart obs with | some l => v.expect n (opText ++ " [listing]") (listing mfs) l | none => v
          -- Spec: a write in the latest second or a later one is accepted and must not be refused
          let accepted := !items.isEmpty && ts != 0 && ts / 1000 ≥ s.specLatest
          let v := if accepted && classOf (okPart obs) != "ok" then v.setViol s!"step={n} a write for second {ts / 1000} (latest {s.specLatest}) was refused: {obs}" else v
          let v := if acts.any (fun a => match a with | .create .. => true | _ => false) then
                     (if ts / 1000 / 86400 > w.latest / 86400 then v.addTag "roll-day" else v.addTag "roll-size") else v
          let v := if acts.any (fun a => match a with | .remove .. => true | _ => false) then v.addTag "retention" else v
          let v := if accepted && ts / 1000 == s.specLatest then v.addTag "same-second" else v
          let v := if !accepted && !items.isEmpty then v.addTag "ignored-old-second" else v
          let newItems := if accepted then items.map stored else []
          { s with w := some w', mfs := mfs, pendingActs := some acts, v := v,
                   specLatest := if accepted then ts / 1000 else s.specLatest,
                   allItems := s.allItems ++ newItems,
                   held := { s.held with pending := s.held.pending ++ newItems } }
    | _, _ => bad "bad-op mlog.write"
  | "stream" =>
    match (if obs == "-" then some [] else (obs.splitOn ";").mapM parseAct) with
    | none => bad s!"bad stream line {obs}"
    | some oacts =>
      let macts := (s.pendingActs.getD [])
      let v := s.v.expect n "system calls of the last operation" (streamStr macts) (streamStr oacts)
      let m := mergeActs oacts
      let held := m.foldl Held.apply s.held
      let v := if held.retentionOk s.maxFiles then v
               else v.setViol s!"step={n} items written to the {s.maxFiles} newest log files are no longer in the log (a file was removed or re-created too early)"
      { s with pendingActs := none, ofs := s.ofs.applyAll m, ostream := s.ostream ++ m, held := held, v := v.addTag "stream" }
  | "crash" =>
    match o.nat "k", o.nat "j" with
    | .ok k, .ok j =>
      let acts := prefixActs s.ostream k j
      let h0 : Held := { pending := s.allItems, placed := [] }
      let torn := match s.ostream[k]? with
        | some (.append true _ _) => if j % 16 != 0 then "crash-torn-idx" else "crash-idx-boundary"
        | some (.append false _ bs) => if j = 0 then "crash-event-boundary" else if (bs.take j).getLast? == some 10 then "crash-line-boundary" else "crash-torn-line"
        | some (.create ..) => "crash-before-create"
        | some (.remove ..) => "crash-before-remove"
        | none => "crash-at-end"
      { s with cfs := ({} : FS).applyAll acts, cheld := acts.foldl Held.apply h0, v := s.v.addTag torn }
    | _, _ => bad "bad-op crash"
  | "mlog.snew" =>
    match o.get? "s" with
    | some name => setSearcher s name { crash := o.get? "crash" == some "1" }
    | none => bad "bad-op snew"
  | "mlog.range" | "mlog.lines" =>
    match o.get? "s", o.nat "b" with
    | some name, .ok b =>
      match getSearcher s name with
      | none => bad "unknown searcher"
      | some sr =>
        let fs := if sr.crash then s.cfs else s.mfs
        let isRange := o.name == "mlog.range"
        let e := (o.natD "e" 0).toOption.getD 0
        let nl := (o.natD "n" 0).toOption.getD 0
        let resB := ((o.get? "res").bind unhex).getD []
        let res := (decodeUtf8 resB).getD []
        let (c', r) := if isRange then searchRange fs sr.cache b e res else searchLines fs sr.cache b nl
        let s := setSearcher s name { sr with cache := c' }
        let v := s.v.expect n opText (itemsStr r) (if obs.startsWith "err" then "err" else obs)
        let v := if sr.cache.file.isSome && cacheOk fs sr.cache b then v.addTag "cache-hit" else v
        let v := match r with | some l => (if l.length > 0 then v.addTag (if isRange then "range-nonempty" else "lines-nonempty") else v) | none => v.addTag "model-io-error"
        -- Spec on the implementation's answer
        let v :=
          match parseResult obs with
          | none => v.setViol s!"step={n} {o.name} did not return items: {obs}"
          | some got =>
            if !sr.crash then
              let held := s.held.placed.map (·.2)
              if isRange then
                let want := specRange held b e res
                if got == want then v
                else v.setViol s!"step={n} {opText}: returned {got.length} items, the log holds {want.length} matching items (first difference at {(List.zip got want).takeWhile (fun p => p.1 == p.2) |>.length})"
              else
                if specLinesOk held b nl got then (if got.length < (fromSec held b).length then v.addTag "limit-cut" else v)
                else v.setViol s!"step={n} {opText}: returned {got.length} items; not the first lines (at least {nl}, whole seconds) of the {(fromSec held b).length} items from that time on"
            else
              -- crash state: every item whose line and index entry are complete comes back, in order; beyond the complete
              -- lines at most the torn last line may show up
              let placed := s.cheld.placed
              let sel : MItem → Bool := fun it => if isRange then inRange b e res it else b / 1000 ≤ it.ts / 1000
              let complete := (placed.filter (fun p => sel p.2)).map (·.2)
              let guaranteed := (placed.filter (fun p => sel p.2 && hasEntry ((s.cfs.idxs.get? p.1).getD []) (p.2.ts / 1000))).map (·.2)
              let extraOk := subseq got complete || subseq got.dropLast complete
              let allBack := if isRange then subseq guaranteed got
                             else (if nl > complete.length then subseq guaranteed got else subseq (guaranteed.take (min nl got.length)) got && got.length ≥ min nl guaranteed.length)
              if !extraOk then v.setViol s!"step={n} {opText} after the crash: returned items that were never completely written (beyond one torn line)"
              else if !allBack then v.setViol s!"step={n} {opText} after the crash: {guaranteed.length} matching items have a complete line and index entry, {got.length} came back and not all of those are among them"
              else v
        { s with v := v }
    | _, _ => bad "bad-op search"
  | other => if other.startsWith "plan." then s else bad s!"bad-op {other}"

def checkCase (lines : List (String × String)) : Verdict :=
  let rec go (s : St) (n : Nat) : List (String × String) → St
    | [] => s.flushPending
    | (op, obs) :: rest => go (stepOp s n op obs) (n + 1) rest
  (go {} 0 lines).v

end Sentinel.DriverC19
