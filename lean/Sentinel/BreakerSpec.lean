import Sentinel.Breaker
/-!
Spec of a circuit breaker (C03): the documented Closed / Open / Half-Open machine over the **exact windowed counts** of its
completion history — no ring, no stamps. Used by the world driver as the oracle on implementation traces and by
`SentinelProofs/Props/C03.lean` as the abstract side of the refinement theorem `breaker_refines_spec`.
-/
namespace Sentinel

/-- Spec-level circuit breaker -/
structure SBreaker where
  rule : BRule
  state : BState := .closed
  deadline : Nat := 0
  hist : List (Nat × Bool) := []        -- completions that still count: (time ms, counted as slow/error), newest first
  deriving Inhabited

/-- is a completion recorded at `t` inside the statistic window ending now? -/
def SBreaker.inWindow (b : SBreaker) (now t : Nat) : Bool :=
  let g := b.rule.geo
  let hi := now - now % g.L
  let lo := hi - b.rule.ivl + g.L
  lo ≤ t - t % g.L && t - t % g.L ≤ hi

/-- counts of the completions whose bucket lies in the statistic window ending now: (counted against the breaker, all) -/
def SBreaker.counts (b : SBreaker) (now : Nat) : Nat × Nat :=
  let inw := b.hist.filter (fun e => b.inWindow now e.1)
  ((inw.filter (·.2)).length, inw.length)

/-- a request: (breaker', admitted, notifications, it is the probe) -/
def SBreaker.enter (b : SBreaker) (now : Nat) : SBreaker × Bool × List BEvent × Bool :=
  match b.state with
  | .closed => (b, true, [], false)
  | .halfOpen => (b, false, [], false)
  | .opn =>
    if now ≥ b.deadline then ({ b with state := .halfOpen }, true, [⟨.halfOpen, .opn, b.rule.id, "-"⟩], true)
    else (b, false, [], false)

/-- the probe's entry was rejected by another rule: back to Open, the deadline stays -/
def SBreaker.rollback (b : SBreaker) (blocked : Bool) : SBreaker × List BEvent :=
  if blocked && b.state == .halfOpen then ({ b with state := .opn }, [⟨.opn, .halfOpen, b.rule.id, "1"⟩]) else (b, [])

/-- does a completion count against the breaker -/
def SBreaker.hit (b : SBreaker) (rt : Nat) (err : Bool) : Bool :=
  match b.rule.strategy with | .slowRatio => decide (rt > b.rule.maxRt) | _ => err

/-- has the threshold been met, given the window counts -/
def SBreaker.trip (b : SBreaker) (target total : Nat) : Bool × String :=
  match b.rule.strategy with
  | .errorCount => (decide (total ≥ b.rule.minReq) && decide (target ≥ b.rule.thr.toNatFloor), toString target)
  | _ => let ratio := F64.div (F64.ofNat target) (F64.ofNat total)
         (decide (total ≥ b.rule.minReq) && !F64.lt ratio b.rule.thr, Breaker.snapStr ratio)

/-- a completion (response time `rt`, error flag) observed at `now`. Closing empties the statistics: the completions of the
current window no longer count (older ones can never be in a window again: `counts_forget_old` in Props/C03) -/
def SBreaker.complete (b : SBreaker) (now rt : Nat) (err : Bool) : SBreaker × List BEvent :=
  let hit := b.hit rt err
  let b := { b with hist := (now, hit) :: b.hist }
  let (target, total) := b.counts now
  match b.state with
  | .halfOpen =>
    if hit then ({ b with state := .opn, deadline := now + b.rule.retryMs }, [⟨.opn, .halfOpen, b.rule.id, "1"⟩])
    else ({ b with state := .closed, hist := b.hist.filter (fun e => !b.inWindow now e.1) }, [⟨.closed, .halfOpen, b.rule.id, "-"⟩])
  | .closed =>
    let (trip, snap) := b.trip target total
    if trip then ({ b with state := .opn, deadline := now + b.rule.retryMs }, [⟨.opn, .closed, b.rule.id, snap⟩]) else (b, [])
  | .opn => (b, [])

/-- the breakers of a resource at an entry request: (breakers', refused?, notifications, probing breakers) -/
def specBrEnter : List SBreaker → Nat → List SBreaker × Bool × List BEvent × List String
  | [], _ => ([], false, [], [])
  | b :: rest, now =>
    let (b', ok, ev, probe) := b.enter now
    if ok then
      let (r', ref, ev', pr) := specBrEnter rest now
      (b' :: r', ref, ev ++ ev', (if probe then [b.rule.id] else []) ++ pr)
    else (b' :: rest, true, ev, [])

/-! ### operations of one breaker's life, for both sides -/

inductive BOp where
  | enter (now : Nat)                       -- a request arrives
  | rollback (blocked : Bool)               -- exit hook of the probe's entry
  | complete (now rt : Nat) (err : Bool)    -- a completion is reported
  deriving Repr, Inhabited

/-- what an operation lets the outside see: admitted? and the notifications -/
abbrev BOut := Option Bool × List BEvent

def Breaker.stepOp (b : Breaker) : BOp → Breaker × BOut
  | .enter now => let (b', ok, ev, _) := b.tryPass now; (b', (some ok, ev))
  | .rollback bl => let (b', ev) := b.rollback bl; (b', (none, ev))
  | .complete now rt err => let (b', ev) := b.onComplete now rt err; (b', (none, ev))

def SBreaker.stepOp (b : SBreaker) : BOp → SBreaker × BOut
  | .enter now => let (b', ok, ev, _) := b.enter now; (b', (some ok, ev))
  | .rollback bl => let (b', ev) := b.rollback bl; (b', (none, ev))
  | .complete now rt err => let (b', ev) := b.complete now rt err; (b', (none, ev))

def Breaker.run (b : Breaker) : List BOp → Breaker × List BOut
  | [] => (b, [])
  | o :: os => let (b', out) := b.stepOp o; let (b'', outs) := b'.run os; (b'', out :: outs)

def SBreaker.run (b : SBreaker) : List BOp → SBreaker × List BOut
  | [] => (b, [])
  | o :: os => let (b', out) := b.stepOp o; let (b'', outs) := b'.run os; (b'', out :: outs)

end Sentinel
