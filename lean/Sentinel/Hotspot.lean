/-!
Model of `core/hotspot/{cache,rule,traffic_shaping/*,slot,concurrency_stat_slot}.rs` (C05 hotspot half, C06, C07 hotspot half).
Sequential semantics: every compare-exchange succeeds at the first attempt.
-/
namespace Sentinel

/-! ### LRU counter (`Counter` over `lru::LruCache`) -/

/-- most recently used first -/
structure Lru where
  cap : Nat
  items : List (String × Nat) := []
  deriving Repr, Inhabited

namespace Lru
def contains (l : Lru) (k : String) : Bool := l.items.any (fun p => p.1 == k)
def peek (l : Lru) (k : String) : Option Nat := (l.items.find? (fun p => p.1 == k)).map (·.2)

/-- `LruCache::get`: returns the value and makes the key the most recently used -/
def get (l : Lru) (k : String) : Lru × Option Nat :=
  match l.items.find? (fun p => p.1 == k) with
  | some p => ({ l with items := p :: l.items.filter (fun q => q.1 != k) }, some p.2)
  | none => (l, none)

/-- `LruCache::put` of a key that is not present: evicts the least recently used entry when full -/
def putNew (l : Lru) (k : String) (v : Nat) : Lru :=
  if l.cap = 0 then l
  else if l.items.length ≥ l.cap then { l with items := (k, v) :: l.items.take (l.cap - 1) }
  else { l with items := (k, v) :: l.items }

/-- `Counter::add_if_absent`: present → `get` (touch), returns the current value; absent → `put`, returns none -/
def addIfAbsent (l : Lru) (k : String) (v : Nat) : Lru × Option Nat :=
  if l.contains k then l.get k else (l.putNew k v, none)

/-- store into the shared `AtomicU64` of a key (no recency change) -/
def store (l : Lru) (k : String) (v : Nat) : Lru :=
  { l with items := l.items.map (fun p => if p.1 == k then (k, v) else p) }
end Lru

/-! ### rules and controllers -/

inductive HsMetric where
  | concurrency | qps
  deriving Repr, DecidableEq, Inhabited

inductive HsStrategy where
  | reject | throttling
  deriving Repr, DecidableEq, Inhabited

structure HsRule where
  id : String
  metric : HsMetric
  strategy : HsStrategy
  paramIndex : Int := 0
  paramKey : String := ""
  thr : Nat := 0
  maxQueueMs : Nat := 0
  burst : Nat := 0
  durSec : Nat := 0
  maxCap : Nat := 0                       -- params_max_capacity
  specific : List (String × Nat) := []    -- specific_items
  deriving Repr, Inhabited

/-- the threshold that applies to a parameter value: the override if there is one -/
def HsRule.thrFor (r : HsRule) (arg : String) : Nat :=
  match r.specific.find? (fun p => p.1 == arg) with
  | some p => p.2
  | none => r.thr

/-- `Controller::new`: counter capacities -/
def HsRule.capacity (r : HsRule) : Nat :=
  match r.metric with
  | .qps => if r.maxCap > 0 then r.maxCap else if r.durSec = 0 then 20000 else min 20000 (4000 * r.durSec)
  | .concurrency => if r.maxCap > 0 then r.maxCap else 4000

structure HsCtrl where
  rule : HsRule
  time : Lru        -- rule_time_counter
  token : Lru       -- rule_token_counter
  conc : Lru        -- concurrency_counter
  deriving Repr, Inhabited

def HsCtrl.new (r : HsRule) : HsCtrl :=
  match r.metric with
  | .qps => { rule := r, time := { cap := r.capacity }, token := { cap := r.capacity }, conc := { cap := 0 } }
  | .concurrency => { rule := r, time := { cap := 0 }, token := { cap := 0 }, conc := { cap := r.capacity } }

/-- what a controller's check returns; `blocked snap why` carries the snapshot value and which clause refused -/
inductive HsRes where
  | pass
  | blocked (snap : Nat) (why : String)
  | wait (amount : Nat)         -- the number the checker puts into `TokenResult::Wait`
  deriving Repr, DecidableEq, Inhabited

/-- `Controller::extract_args`: the keyed parameter has priority over the positional one -/
def extractArgs (r : HsRule) (args : Option (List String)) (atts : Option (List (String × String))) : Option String :=
  let kv : Option String :=
    match atts with
    | some m =>
      let key := r.paramKey.trimAscii.toString
      if key == "" then none
      else (m.find? (fun p => p.1 == key)).map (·.2)
    | none => none
  match kv with
  | some v => some v
  | none =>
    match args with
    | some l =>
      let idx : Int := if r.paramIndex < 0 then r.paramIndex + l.length else r.paramIndex
      if idx < 0 then none
      else l[idx.toNat]?
    | none => none

/-- `perform_checking_for_concurrency_metric` (ignores the batch count; counts entries) -/
def HsCtrl.checkConc (c : HsCtrl) (arg : String) : HsCtrl × HsRes :=
  let (conc', last) := c.conc.addIfAbsent arg 0
  let c' := { c with conc := conc' }
  match last with
  | none => (c', .pass)
  | some v =>
    let concurrency := v + 1
    if concurrency ≤ c.rule.thrFor arg then (c', .pass) else (c', .blocked concurrency "concurrency")

/-- hotspot `RejectChecker::do_check` -/
def HsCtrl.checkReject (c : HsCtrl) (nowMs : Nat) (arg : String) (batch : Nat) : HsCtrl × HsRes :=
  if c.time.cap = 0 ∨ c.token.cap = 0 then (c, .pass) else
  let tokenCount := c.rule.thrFor arg
  if tokenCount = 0 then (c, .blocked tokenCount "zero-threshold") else
  let maxCount := tokenCount + c.rule.burst
  if batch > maxCount then (c, .blocked batch "batch-exceeds-max") else
  let (time', last) := c.time.addIfAbsent arg nowMs
  match last with
  | none =>
    -- first request for this value: fill the bucket
    let (token', _) := c.token.addIfAbsent arg (maxCount - batch)
    ({ c with time := time', token := token' }, .pass)
  | some lastT =>
    let passTime : Int := (nowMs : Int) - (lastT : Int)
    if passTime > ((c.rule.durSec * 1000 : Nat) : Int) then
      -- refill
      let (token', old) := c.token.addIfAbsent arg (maxCount - batch)
      match old with
      | none => ({ c with time := time'.store arg nowMs, token := token' }, .pass)
      | some rest =>
        let toAdd := passTime.toNat * tokenCount / (c.rule.durSec * 1000)
        let newQps : Int := if toAdd + rest > maxCount then (maxCount : Int) - batch else (toAdd : Int) + rest - batch
        if newQps < 0 then ({ c with time := time', token := token' }, .blocked tokenCount "insufficient-after-refill")
        else ({ c with time := time'.store arg nowMs, token := token'.store arg newQps.toNat }, .pass)
    else
      let (token', old) := c.token.get arg
      match old with
      | some rest =>
        if rest ≥ batch then ({ c with time := time', token := token'.store arg (rest - batch) }, .pass)
        else ({ c with time := time', token := token' }, .blocked tokenCount "insufficient")
      | none => ({ c with time := time', token := token' }, .blocked 0 "hang")   -- the code spins forever here

/-- `((batch * duration * 1000) as f64 / token_count as f64).round() as u64` (round half away from zero) -/
def throttleCost (batch durSec tokenCount : Nat) : Nat :=
  (2 * (batch * durSec * 1000) + tokenCount) / (2 * tokenCount)

/-- hotspot `ThrottlingChecker::do_check`; `wait` carries milliseconds -/
def HsCtrl.checkThrottle (c : HsCtrl) (nowMs : Nat) (arg : String) (batch : Nat) : HsCtrl × HsRes :=
  if c.time.cap = 0 then (c, .pass) else
  let tokenCount := c.rule.thrFor arg
  if tokenCount = 0 then (c, .blocked tokenCount "zero-threshold") else
  let cost := throttleCost batch c.rule.durSec tokenCount
  let (time', last) := c.time.addIfAbsent arg nowMs
  match last with
  | none => ({ c with time := time' }, .pass)
  | some lastT =>
    let expected := lastT + cost
    if expected ≤ nowMs ∨ expected - nowMs < c.rule.maxQueueMs then
      if expected > nowMs then ({ c with time := time'.store arg expected }, .wait (expected - nowMs))
      else ({ c with time := time'.store arg nowMs }, .pass)
    else ({ c with time := time' }, .blocked tokenCount "queue-too-long")

/-- `Controller::perform_checking` -/
def HsCtrl.check (c : HsCtrl) (nowMs : Nat) (arg : String) (batch : Nat) : HsCtrl × HsRes :=
  match c.rule.metric with
  | .concurrency => c.checkConc arg
  | .qps =>
    match c.rule.strategy with
    | .reject => c.checkReject nowMs arg batch
    | .throttling => c.checkThrottle nowMs arg batch

/-- the unit conversion the hotspot slot applies to a `wait` before sleeping: the checker's number is milliseconds,
`sleep_for_ns` takes nanoseconds -/
def hsWaitToNs (ms : Nat) : Nat := ms * 1000000

/-- `ConcurrencyStatSlot::on_entry_pass` / `on_completed` for one controller -/
def HsCtrl.concAdjust (c : HsCtrl) (arg : Option String) (up : Bool) : HsCtrl :=
  match c.rule.metric, arg with
  | .concurrency, some a =>
    let (conc', v) := c.conc.get a
    match v with
    | some x => { c with conc := conc'.store a (if up then x + 1 else x - 1) }
    | none => { c with conc := conc' }
  | _, _ => c

end Sentinel
