/-!
Interleaving semantics for C14–C16 (core Lean only).

* `Cfg` / `Cfg.step`: threads executing lock programs (acquire / release) over exclusive locks — C15.
* `Interleaving`: a history is an interleaving of the threads' action lists — C14, C16 reason over arbitrary histories.
-/
namespace Sentinel.Conc

abbrev Lock := Nat
abbrev Tid := Nat

inductive Act where
  | acq (l : Lock)
  | rel (l : Lock)
  deriving DecidableEq, Repr, Inhabited

/-- threads with the rest of their programs, and who holds which lock -/
structure Cfg where
  progs : List (List Act)
  holder : Lock → Option Tid

def Cfg.prog (c : Cfg) (t : Tid) : List Act := c.progs.getD t []

/-- thread `t` makes its next move, if it can -/
def Cfg.step (c : Cfg) (t : Tid) : Option Cfg :=
  match c.prog t with
  | [] => none
  | Act.acq l :: rest =>
    if c.holder l = none then
      some { progs := c.progs.set t rest, holder := fun x => if x = l then some t else c.holder x }
    else none
  | Act.rel l :: rest =>
    if c.holder l = some t then
      some { progs := c.progs.set t rest, holder := fun x => if x = l then none else c.holder x }
    else none

def Cfg.init (progs : List (List Act)) : Cfg := { progs := progs, holder := fun _ => none }

/-- configurations reachable under some schedule -/
inductive Reachable (progs : List (List Act)) : Cfg → Prop where
  | init : Reachable progs (Cfg.init progs)
  | step (c c' : Cfg) (t : Tid) : Reachable progs c → c.step t = some c' → Reachable progs c'

/-- program `p`, started while holding `held`, acquires only locks of larger rank than every lock it holds, never a lock it
already holds, releases only what it holds, and ends holding nothing -/
def Ok (rank : Lock → Nat) : List Lock → List Act → Prop
  | held, [] => held = []
  | held, Act.acq l :: p => (∀ h ∈ held, rank h < rank l) ∧ l ∉ held ∧ Ok rank (l :: held) p
  | held, Act.rel l :: p => l ∈ held ∧ Ok rank (held.filter (· ≠ l)) p

/-- the same as a computable check -/
def okB (rank : Lock → Nat) : List Lock → List Act → Bool
  | held, [] => held.isEmpty
  | held, Act.acq l :: p => held.all (fun h => rank h < rank l) && !held.contains l && okB rank (l :: held) p
  | held, Act.rel l :: p => held.contains l && okB rank (held.filter (· ≠ l)) p

def Cfg.unfinished (c : Cfg) (t : Tid) : Prop := t < c.progs.length ∧ c.prog t ≠ []

/-- some thread is unfinished and no unfinished thread can move -/
def Deadlocked (c : Cfg) : Prop :=
  (∃ t, c.unfinished t) ∧ ∀ t, c.unfinished t → c.step t = none

/-! ## histories -/

/-- `h` is an interleaving of the action lists `ps` (each list's order is kept) -/
inductive Interleaving {α : Type} : List (List α) → List α → Prop where
  | done (ps : List (List α)) : (∀ p ∈ ps, p = []) → Interleaving ps []
  | pick (ps : List (List α)) (i : Nat) (a : α) (rest : List α) (h : List α) :
      ps[i]? = some (a :: rest) → Interleaving (ps.set i rest) h → Interleaving ps (a :: h)

end Sentinel.Conc
