/-!
Line protocol helpers shared by all property drivers (core Lean only).
An operation line is `name k=v k=v word ...`; a trace line is `<op> -> <observation>`.
-/
namespace Sentinel

structure Op where
  name : String
  kv : List (String × String)
  words : List String
  deriving Repr, Inhabited

def splitFirst (s : String) (sep : String) : Option (String × String) :=
  match s.splitOn sep with
  | [] => none
  | [_] => none
  | a :: rest => some (a, sep.intercalate rest)

def tokens (s : String) : List String :=
  (s.splitOn " ").filter (fun t => t ≠ "")

def Op.parse (line : String) : Op :=
  match tokens line with
  | [] => { name := "", kv := [], words := [] }
  | n :: rest =>
    let kv := rest.filterMap (fun t => splitFirst t "=")
    let ws := rest.filter (fun t => (splitFirst t "=").isNone)
    { name := n, kv := kv, words := ws }

def Op.get? (o : Op) (k : String) : Option String :=
  (o.kv.find? (fun p => p.1 == k)).map (·.2)

def Op.str (o : Op) (k : String) : Except String String :=
  match o.get? k with
  | some v => .ok v
  | none => .error s!"bad-op: missing {k} in {o.name}"

def parseNat (what : String) (s : String) : Except String Nat :=
  match s.toNat? with
  | some n => .ok n
  | none => .error s!"bad-op: not a number ({what}): '{s}'"

def Op.nat (o : Op) (k : String) : Except String Nat := do
  let v ← o.str k
  parseNat k v

def Op.natD (o : Op) (k : String) (d : Nat) : Except String Nat :=
  match o.get? k with
  | some v => parseNat k v
  | none => .ok d

def listOf (s : String) (sep : String := ",") : List String :=
  if s == "" then [] else s.splitOn sep

def Op.list (o : Op) (k : String) : List String :=
  match o.get? k with
  | some v => listOf v
  | none => []

/-- A non-negative exact fraction `num/den` (plain `num` means `num/1`). -/
structure Frac where
  num : Nat
  den : Nat
  deriving Repr, DecidableEq, Inhabited

def parseFrac (what : String) (s : String) : Except String Frac :=
  match s.splitOn "/" with
  | [a] => do let n ← parseNat what a; pure ⟨n, 1⟩
  | [a, b] => do
    let n ← parseNat what a
    let d ← parseNat what b
    if d = 0 then .error s!"bad-op: zero denominator ({what})" else pure ⟨n, d⟩
  | _ => .error s!"bad-op: bad fraction ({what}): '{s}'"

def Op.frac (o : Op) (k : String) : Except String Frac := do
  let v ← o.str k
  parseFrac k v

def Frac.le (a b : Frac) : Bool := a.num * b.den ≤ b.num * a.den
def Frac.lt (a b : Frac) : Bool := a.num * b.den < b.num * a.den
def Frac.ofNat (n : Nat) : Frac := ⟨n, 1⟩
def Frac.toStr (a : Frac) : String := s!"{a.num}/{a.den}"

/-- A trace line split into the operation text and the implementation's observation. -/
def splitTrace (line : String) : String × String :=
  match splitFirst line " -> " with
  | some (a, b) => (a, b)
  | none => (line, "")

/-- Result of checking one case. -/
structure Verdict where
  diff : Option String := none     -- first model/implementation disagreement
  viol : Option String := none     -- first Spec violation on the implementation's trace
  tags : List String := []         -- what the case exercised (for the evidence)
  steps : Nat := 0
  deriving Repr, Inhabited

def Verdict.addTag (v : Verdict) (t : String) : Verdict :=
  if v.tags.contains t then v else { v with tags := t :: v.tags }

def Verdict.setDiff (v : Verdict) (m : String) : Verdict :=
  if v.diff.isSome then v else { v with diff := some m }

def Verdict.setViol (v : Verdict) (m : String) : Verdict :=
  if v.viol.isSome then v else { v with viol := some m }

/-- compare the model's predicted observation with the implementation's -/
def Verdict.expect (v : Verdict) (step : Nat) (op : String) (model impl : String) : Verdict :=
  if model == impl then v else v.setDiff s!"step={step} op=[{op}] model=[{model}] impl=[{impl}]"

end Sentinel
