/-!
Integer-only soft-float for the few places where the Rust code *computes* in `f64`
(`sum as f64 / interval_s`, `rt / complete`, ...). Non-negative, normal range only.
A value is `m * 2^e`. `roundDiv num den` is the correctly rounded (nearest, ties to even) binary64
quotient of two naturals. Validated bit-for-bit against Rust by the harness (C02 run), not proved
equal to IEEE-754 (trusted base).
-/
namespace Sentinel

structure F64 where
  m : Nat
  e : Int
  deriving Repr, DecidableEq, Inhabited

namespace F64

def zero : F64 := ⟨0, 0⟩

/-- correctly rounded `num / den` -/
def roundDiv (num den : Nat) : F64 :=
  if num = 0 ∨ den = 0 then zero else
  let ln := Nat.log2 num
  let ld := Nat.log2 den
  let e0 : Int := (ln : Int) - (ld : Int) - 52
  let scaled (e : Int) : Nat × Nat :=
    if e ≥ 0 then (num, den * 2 ^ e.toNat) else (num * 2 ^ (-e).toNat, den)
  let q0 := (scaled e0).1 / (scaled e0).2
  let e := if q0 < 2 ^ 52 then e0 - 1 else if q0 ≥ 2 ^ 53 then e0 + 1 else e0
  let a := (scaled e).1
  let b := (scaled e).2
  let q := a / b
  let r := a % b
  let q' := if 2 * r > b then q + 1 else if 2 * r = b then (if q % 2 = 1 then q + 1 else q) else q
  if q' = 2 ^ 53 then ⟨2 ^ 52, e + 1⟩ else ⟨q', e⟩

/-- `n as f64` -/
def ofNat (n : Nat) : F64 := roundDiv n 1

/-- numerator / denominator of the exact value (denominator a power of two) -/
def toFrac (x : F64) : Nat × Nat :=
  if x.e ≥ 0 then (x.m * 2 ^ x.e.toNat, 1) else (x.m, 2 ^ (-x.e).toNat)

/-- `a / b` in binary64 -/
def div (a b : F64) : F64 :=
  let (an, ad) := a.toFrac
  let (bn, bd) := b.toFrac
  roundDiv (an * bd) (ad * bn)

/-- `a * b` in binary64 -/
def mul (a b : F64) : F64 :=
  let (an, ad) := a.toFrac
  let (bn, bd) := b.toFrac
  roundDiv (an * bn) (ad * bd)

/-- `a + b` in binary64 -/
def add (a b : F64) : F64 :=
  let (an, ad) := a.toFrac
  let (bn, bd) := b.toFrac
  roundDiv (an * bd + bn * ad) (ad * bd)

partial def normLoop (m : Nat) (e : Int) : Nat × Int :=
  if m ≠ 0 ∧ m % 2 = 0 ∧ e < 0 then normLoop (m / 2) (e + 1) else (m, e)

/-- canonical text `num/den` (lowest terms), the same rendering the harness uses for a Rust `f64` -/
def toStr (x : F64) : String :=
  if x.m = 0 then "0/1" else
  let (m, e) := normLoop x.m x.e
  if e ≥ 0 then s!"{m * 2 ^ e.toNat}/1" else s!"{m}/{2 ^ (-e).toNat}"

/-- `x < k` for a natural `k`, exactly (this is `x < (k as f64)` whenever `k < 2^53`, where the conversion is exact) -/
def ltNat (x : F64) (k : Nat) : Bool := x.toFrac.1 < k * x.toFrac.2

/-- `x as u64` / `x as i64` for non-negative finite `x`: truncation -/
def toNatFloor (x : F64) : Nat :=
  let (n, d) := x.toFrac
  n / d

/-- `x.floor()` as a float -/
def floor (x : F64) : F64 := ofNat x.toNatFloor

/-- `utils::next_after` for positive `x`: the next representable double above -/
def nextAfter (x : F64) : F64 :=
  if x.m = 0 then x
  else if x.m + 1 = 2 ^ 53 then ⟨2 ^ 52, x.e + 1⟩ else ⟨x.m + 1, x.e⟩

def le (a b : F64) : Bool :=
  let (an, ad) := a.toFrac
  let (bn, bd) := b.toFrac
  an * bd ≤ bn * ad

def lt (a b : F64) : Bool :=
  let (an, ad) := a.toFrac
  let (bn, bd) := b.toFrac
  an * bd < bn * ad

end F64
end Sentinel
