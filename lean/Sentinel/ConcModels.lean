import Sentinel.Conc
/-!
Atomic-step models for C14 (shared statistics node) and C16 (breaker state) over arbitrary histories.
-/
namespace Sentinel.Conc

/-! ## C14: the shared node -/

/-- atomic operations on the one statistics node of a resource (`fetch_add` / `fetch_sub` / bucket `fetch_add` / bucket reset) -/
inductive NAct where
  | inc                      -- concurrency.fetch_add(1)   (entry passed)
  | dec                      -- concurrency.fetch_sub(1)   (entry exited)
  | add (k : Nat) (v : Nat)  -- bucket counter k += v       (k: 0 pass, 1 block, 2 complete, 3 rt, …)
  | reset (k : Nat)          -- bucket counter k := 0       (window roll-over)
  deriving Repr, DecidableEq, Inhabited

/-- the in-flight counter after a history (integer-valued: `fetch_add` / `fetch_sub` never lose an update) -/
def concOf (h : List NAct) : Int := (h.countP (· == .inc) : Int) - (h.countP (· == .dec) : Int)

def NAct.amount (k : Nat) : NAct → Nat
  | .add k' v => if k' = k then v else 0
  | _ => 0

/-- everything recorded on counter `k` -/
def recorded (k : Nat) (h : List NAct) : Nat := (h.map (NAct.amount k)).sum

/-- the value of bucket counter `k` after a history (oldest action first), starting from `acc` -/
def counterFrom (k : Nat) (acc : Nat) : List NAct → Nat
  | [] => acc
  | .add k' v :: rest => counterFrom k (if k' = k then acc + v else acc) rest
  | .reset k' :: rest => counterFrom k (if k' = k then 0 else acc) rest
  | _ :: rest => counterFrom k acc rest

def counterOf (k : Nat) (h : List NAct) : Nat := counterFrom k 0 h

/-- node acquisition: `get_or_create_resource_node` as one atomic get-or-insert under the write lock; the state is the node
id held by the map (if any) and the next fresh id -/
def getOrInsert (st : Option Nat × Nat) : (Option Nat × Nat) × Nat :=
  match st.1 with
  | some n => (st, n)
  | none => ((some st.2, st.2 + 1), st.2)

/-- the ids obtained by a sequence of `n` acquisitions (in any order: they are indistinguishable) -/
def acquireAll : Nat → (Option Nat × Nat) → List Nat
  | 0, _ => []
  | n + 1, st => let (st', id) := getOrInsert st; id :: acquireAll n st'

/-- the code as it was: look-up under the read lock, and on a miss an `insert` (which overwrites) under a separately
taken write lock, then another look-up -/
inductive OldStep where
  | lookup (t : Nat)      -- thread t: read-lock get; remembers whether it missed
  | insert (t : Nat)      -- thread t (after a miss): write-lock insert of a fresh node
  | readBack (t : Nat)    -- thread t: read-lock get → the node it will use
  deriving Repr, DecidableEq

structure OldSt where
  map : Option Nat := none
  next : Nat := 0
  missed : List Nat := []          -- threads whose look-up missed
  got : List (Nat × Nat) := []     -- (thread, node id it ended up with)
  deriving Repr

def OldSt.step (s : OldSt) : OldStep → OldSt
  | .lookup t => match s.map with
    | some n => { s with got := (t, n) :: s.got }
    | none => { s with missed := t :: s.missed }
  | .insert t => if s.missed.contains t then { s with map := some s.next, next := s.next + 1 } else s
  | .readBack t => match s.map with
    | some n => if s.missed.contains t then { s with got := (t, n) :: s.got } else s
    | none => s

/-! ## C16: the breaker state -/

inductive CState where | closed | opn | halfOpen
  deriving Repr, DecidableEq, Inhabited

/-- one guarded transition attempt (`from_*`): under the state mutex, compare and set; the listeners are notified inside the
same critical section -/
structure Cas where
  thread : Nat
  frm : CState
  to : CState
  deriving Repr, DecidableEq, Inhabited

/-- the state after a history of attempts, and the list of attempts that succeeded (= the listener log, oldest first) -/
def casRun : CState → List Cas → CState × List Cas
  | s, [] => (s, [])
  | s, c :: rest =>
    if s = c.frm then
      let (s', log) := casRun c.to rest
      (s', c :: log)
    else casRun s rest

/-- a log of transitions is a path starting at `s` -/
def isPath : CState → List Cas → Bool
  | _, [] => true
  | s, c :: rest => decide (c.frm = s) && isPath c.to rest

/-! ### request-level steps: who may end a Half-Open phase -/

/-- the breaker as request threads see it: the state behind the mutex and the retry deadline -/
structure RSt where
  state : CState := .closed
  retryAt : Nat := 0
  retryMs : Nat := 1000
  deriving Repr, DecidableEq, Inhabited

/-- what a thread does to the breaker in one operation, each an atomic section of the state mutex (or two of them, for a
probe whose entry another rule rejects: its own exit hook rolls the breaker back) -/
inductive RStep where
  | request (t : Nat) (now : Nat) (blockedElsewhere : Bool)   -- `try_pass` (+ the exit of the entry if another rule rejects it)
  | complete (t : Nat) (now : Nat) (hit : Bool) (trip : Bool) -- `on_request_complete`; `trip`: the threshold is met (Closed only)
  deriving Repr, DecidableEq, Inhabited

/-- new state, the transitions performed (with the performing thread), and for a request whether the breaker admitted it -/
def RSt.step (s : RSt) : RStep → RSt × List Cas × Option Bool
  | .request t now blocked =>
    match s.state with
    | .closed => (s, [], some true)
    | .halfOpen => (s, [], some false)
    | .opn =>
      if s.retryAt ≤ now then
        -- the winner of Open→Half-Open carries the rollback hook; nobody else does
        if blocked then ({ s with state := .opn }, [⟨t, .opn, .halfOpen⟩, ⟨t, .halfOpen, .opn⟩], some true)
        else ({ s with state := .halfOpen }, [⟨t, .opn, .halfOpen⟩], some true)
      else (s, [], some false)
  | .complete t now hit trip =>
    match s.state with
    | .halfOpen =>
      if hit then ({ s with state := .opn, retryAt := now + s.retryMs }, [⟨t, .halfOpen, .opn⟩], none)
      else ({ s with state := .closed }, [⟨t, .halfOpen, .closed⟩], none)
    | .closed =>
      if trip then ({ s with state := .opn, retryAt := now + s.retryMs }, [⟨t, .closed, .opn⟩], none) else (s, [], none)
    | .opn => (s, [], none)

/-- a history of steps by any number of threads: the outcomes, oldest first -/
def RSt.run (s : RSt) : List RStep → List (RStep × List Cas × Option Bool)
  | [] => []
  | st :: rest => let (s', log, adm) := s.step st; (st, log, adm) :: RSt.run s' rest

def RSt.after (s : RSt) : List RStep → RSt
  | [] => s
  | st :: rest => RSt.after (s.step st).1 rest

/-! ### `try_pass` as two steps: the unlocked look at state and deadline, then the locked transition -/

/-- `check`: `current_state()` + `retry_timeout_arrived()` without holding the state mutex across both;
`act`: `from_open_to_half_open` under the mutex; `fail`: a completion that re-opens a Half-Open breaker (new deadline) -/
inductive SStep where
  | check (t : Nat) (now : Nat)
  | act (t : Nat) (now : Nat)
  | fail (t : Nat) (now : Nat)
  deriving Repr, DecidableEq, Inhabited

structure SSt where
  state : CState := .opn
  retryAt : Nat := 0
  retryMs : Nat := 1000
  ready : List Nat := []        -- threads whose unlocked check said "Open, deadline reached" and that have not acted yet
  deriving Repr, DecidableEq, Inhabited

/-- `recheck = true`: the transition looks at the deadline again under the mutex (the code since the D16 fix);
`recheck = false`: it only looks at the state (the code before). Output: the times at which a request became the probe,
together with the deadline in force at that moment. -/
def SSt.step (recheck : Bool) (s : SSt) : SStep → SSt × List (Nat × Nat)
  | .check t now =>
    if s.state = .opn ∧ s.retryAt ≤ now then ({ s with ready := t :: s.ready.filter (· ≠ t) }, []) else (s, [])
  | .act t now =>
    if t ∈ s.ready then
      let s := { s with ready := s.ready.filter (· ≠ t) }
      if s.state = .opn ∧ (recheck = false ∨ s.retryAt ≤ now) then ({ s with state := .halfOpen }, [(now, s.retryAt)]) else (s, [])
    else (s, [])
  | .fail _ now =>
    if s.state = .halfOpen then ({ s with state := .opn, retryAt := now + s.retryMs }, []) else (s, [])

def SSt.run (recheck : Bool) (s : SSt) : List SStep → List (Nat × Nat)
  | [] => []
  | st :: rest => let (s', out) := s.step recheck st; out ++ SSt.run recheck s' rest

end Sentinel.Conc
