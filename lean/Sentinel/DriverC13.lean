import Sentinel.SlotChain
/-! Driver for C13: correspondence (model vs implementation log) and Spec on the implementation's log. -/
namespace Sentinel.DriverC13
open Sentinel Sentinel.SlotChain

def parseRes (s : String) : Except String Res :=
  if s == "P" then .ok .pass
  else if s.startsWith "B" then do let n ← parseNat "B" (s.drop 1).toString; pure (.blocked n)
  else if s.startsWith "W" then do let n ← parseNat "W" (s.drop 1).toString; pure (.wait n)
  else .error s!"bad-op: check result {s}"

def enumFrom {α : Type} : Nat → List α → List (Nat × α)
  | _, [] => []
  | n, x :: xs => (n, x) :: enumFrom (n + 1) xs

/-- slot specs `order` or, for preparation slots, `order:D<ty>` (the slot writes a blocked verdict of type `ty` into the
context; the chain must discard it, so the model's slot is the same) -/
def parseSlots (l : List String) : Except String (List Slot) :=
  (enumFrom 0 l).mapM (fun (i, s) => do let o ← parseNat "order" ((s.splitOn ":").headD ""); pure ⟨i, o⟩)

/-- check specs `order:R1/R2/...`: the result of the first, second, ... call (the last one repeats) -/
def parseScripts (l : List String) : Except String (List (Nat × Nat × List Res)) :=
  (enumFrom 0 l).mapM (fun (i, s) =>
    match s.splitOn ":" with
    | [o, r] => do
      let o ← parseNat "order" o
      let rs ← (r.splitOn "/").mapM parseRes
      if rs.isEmpty then .error s!"bad-op: check spec {s}" else pure (i, o, rs)
    | _ => .error s!"bad-op: check spec {s}")

/-- the check slots as they answer on call number `n` -/
def checksAt (scripts : List (Nat × Nat × List Res)) (n : Nat) : List Check :=
  scripts.map (fun (i, o, rs) => ⟨i, o, rs.getD (min n (rs.length - 1)) .pass⟩)

/-- who produced a block error: `slot<i>` = check slot `i`; `pre<i>` = preparation slot `i` (never legitimate; numbered from 1000000) -/
def parseSrc (s : String) : Option Nat :=
  if s.startsWith "slot" then (s.drop 4).toString.toNat?
  else if s.startsWith "pre" then ((s.drop 3).toString.toNat?).map (· + 1000000)
  else none

def parseEvent (s : String) : Except String Event :=
  if s.startsWith "pre" then do let n ← parseNat "pre" (s.drop 3).toString; pure (.pre n)
  else if s.startsWith "chk" then do let n ← parseNat "chk" (s.drop 3).toString; pure (.chk n)
  else if s.startsWith "pass" then do let n ← parseNat "pass" (s.drop 4).toString; pure (.pass n)
  else if s.startsWith "done" then do let n ← parseNat "done" (s.drop 4).toString; pure (.done n)
  else if s.startsWith "blk" then
    match (s.drop 3).toString.splitOn ":" with
    | [i, ty, src] => do
      let i ← parseNat "blk" i
      let ty ← parseNat "ty" ty
      match parseSrc src with
      | some src => pure (.blk i ty src)
      | none => .error s!"bad-obs: event {s}"
    | _ => .error s!"bad-obs: event {s}"
  else .error s!"bad-obs: event {s}"

def parseLog (s : String) : Except String (List Event) := (listOf s ";").mapM parseEvent

def ascending : List Nat → Bool
  | [] => true
  | [_] => true
  | a :: b :: rest => a ≤ b && ascending (b :: rest)

def isPermIds (a b : List Nat) : Bool :=
  a.length == b.length && a.all (fun x => a.count x == b.count x) && b.all (fun x => a.count x == b.count x)

/-- reorder `added` in the order of `ids`, if `ids` is a permutation of the added ids -/
def adopt {α : Type} (getId : α → Nat) (added : List α) (ids : List Nat) : Option (List α) :=
  if isPermIds (added.map getId) ids then ids.mapM (fun i => added.find? (fun a => getId a == i)) else none

structure St where
  pres : List Slot := []
  checks : List Check := []            -- as they answer on the current call
  scripts : List (Nat × Nat × List Res) := []
  calls : Nat := 0                     -- entries made through this chain so far
  stats : List Slot := []
  chain : Option Chain := none         -- with the order adopted from the first build
  open_ : Option Bool := none          -- some blocked? after build
  rawBlocked : Option Bool := none     -- verdict of the last `rentry` on the hand-made context

/-- Spec evaluated on the implementation's own observation of `build` (independent of the model). -/
def specBuild (st : St) (res : String) (log : List Event) : Option String :=
  let preIds := log.filterMap (fun e => match e with | .pre i => some i | _ => none)
  let chkIds := log.filterMap (fun e => match e with | .chk i => some i | _ => none)
  let noteIds := log.filterMap (fun e => match e with | .pass i => some i | .blk i _ _ => some i | _ => none)
  let doneIds := log.filterMap (fun e => match e with | .done i => some i | _ => none)
  let kindOf : Event → Nat := fun e => match e with | .pre _ => 0 | .chk _ => 1 | .pass _ => 2 | .blk _ _ _ => 2 | .done _ => 3
  let ordOf {α : Type} (getId : α → Nat) (getOrd : α → Nat) (l : List α) (i : Nat) : Nat :=
    match l.find? (fun a => getId a == i) with | some a => getOrd a | none => 0
  let anyBlocked := st.checks.any (fun c => c.res.isBlocked)
  if !ascending (log.map kindOf) then some "phases out of order (prepare, check, stat)"
  else if !isPermIds (st.pres.map (·.id)) preIds then some "prepare slots not run exactly once each"
  else if !isPermIds (st.checks.map (·.id)) chkIds then some "check slots not run exactly once each"
  else if !isPermIds (st.stats.map (·.id)) noteIds then some "stat slots not notified exactly once each"
  else if !ascending (preIds.map (ordOf (·.id) (·.order) st.pres)) then some "prepare slots not in ascending order"
  else if !ascending (chkIds.map (ordOf (·.id) (·.order) st.checks)) then some "check slots not in ascending order"
  else if !ascending (noteIds.map (ordOf (·.id) (·.order) st.stats)) then some "stat slots not in ascending order"
  else if doneIds ≠ [] then some "completion notified during build"
  else if res == "pass" then
    if anyBlocked then some "a check slot blocked but the entry passed"
    else if log.any (fun e => match e with | .blk _ _ _ => true | _ => false) then some "passed entry notified as blocked"
    else none
  else
    match res.splitOn ":" with
    | ["blocked", ty, src] =>
      match ty.toNat?, parseSrc src with
      | some ty, some src =>
        if !anyBlocked then some "entry blocked although no check slot blocked"
        else if !(st.checks.any (fun c => c.id == src && c.res == .blocked ty)) then
          some "error delivered was not produced by a blocking slot"
        else if log.any (fun e => match e with | .pass _ => true | .blk _ t s => !(t == ty && s == src) | _ => false) then
          some "stat slots notified with a different verdict than the one returned"
        else none
      | _, _ => some s!"unparsable result {res}"
    | _ => some s!"unparsable result {res}"

def specExit (st : St) (blocked : Bool) (log : List Event) : Option String :=
  let doneIds := log.filterMap (fun e => match e with | .done i => some i | _ => none)
  if log.length ≠ doneIds.length then some "non-completion call during exit"
  else if blocked then (if doneIds ≠ [] then some "completion notified for a blocked entry" else none)
  else if !isPermIds (st.stats.map (·.id)) doneIds then some "completion not notified exactly once per stat slot"
  else none

def obsField (obs : String) (k : String) : String :=
  match (tokens obs).filterMap (fun t => match splitFirst t "=" with
      | some (a, b) => if a == k then some b else none
      | none => none) with
  | v :: _ => v
  | [] => ""

def stepCase (st : St) (v : Verdict) (i : Nat) (opText obs : String) : St × Verdict :=
  let op := Op.parse opText
  match op.name with
  | "chain" =>
    match parseSlots (op.list "pre"), parseScripts (op.list "chk"), parseSlots (op.list "stat") with
    | .ok p, .ok sc, .ok s =>
      let c := checksAt sc 0
      let v := v.expect i opText "ok" obs
      let v := if (op.list "pre").any (fun x => (x.splitOn ":D").length > 1) then v.addTag "dirty-prepare" else v
      let v := if c.any (fun x => x.res.isBlocked) then v.addTag "blocking-check" else v.addTag "no-blocking-check"
      let v := if c.any (fun x => match x.res with | .wait _ => true | _ => false) then v.addTag "wait" else v
      let v := if !(ascending (p.map (·.order)) && ascending (c.map (·.order)) && ascending (s.map (·.order))) then v.addTag "added-unsorted" else v
      ({ st with pres := p, checks := c, scripts := sc, calls := 0, stats := s, chain := none, open_ := none, rawBlocked := none }, v)
    | _, _, _ => (st, v.setDiff s!"step={i} bad-op [{opText}]")
  | "build" | "rentry" =>
    let raw := op.name == "rentry"
    let st := { st with checks := checksAt st.scripts st.calls }
    let st := { st with chain := st.chain.map (fun c => { c with checks := c.checks.map (fun k => match st.checks.find? (fun x => x.id == k.id) with | some x => x | none => k) }) }
    let v := if raw && st.calls > 0 then v.addTag "context-reused" else v
    let res := obsField obs "res"
    match parseLog (obsField obs "log") with
    | .error e => (st, v.setDiff s!"step={i} {e}")
    | .ok log =>
      let v := match specBuild st res log with | some m => v.setViol s!"step={i} {m}" | none => v
      -- adopt the implementation's order among equal keys
      let preIds := log.filterMap (fun e => match e with | .pre i => some i | _ => none)
      let chkIds := log.filterMap (fun e => match e with | .chk i => some i | _ => none)
      let noteIds := log.filterMap (fun e => match e with | .pass i => some i | .blk i _ _ => some i | _ => none)
      let chain : Option Chain := match st.chain with
        | some c => some c
        | none =>
          match adopt (·.id) st.pres preIds, adopt (·.id) st.checks chkIds, adopt (·.id) st.stats noteIds with
          | some p, some c, some s =>
            if ascending (p.map (·.order)) && ascending (c.map (·.order)) && ascending (s.map (·.order))
            then some ⟨p, c, s⟩ else none
          | _, _, _ => none
      match chain with
      | none => ({ st with open_ := none }, v.setDiff s!"step={i} op=[build] implementation order is not a sorted permutation of the added slots: [{obs}]")
      | some c =>
        -- `build` exits a blocked entry itself; a direct `SlotChain::entry` (on a context that may carry the previous verdict) does not
        let (r, mlog) := if raw then c.entryOn (match st.rawBlocked with | some true => some (0, 0) | _ => none) else c.build
        let v := v.expect i opText s!"res={resStr r} log={logStr mlog}" obs
        let v := if r.isSome then v.addTag "blocked" else v.addTag "passed"
        if raw then ({ st with chain := some c, rawBlocked := some r.isSome, calls := st.calls + 1 }, v)
        else ({ st with chain := some c, open_ := some r.isSome, calls := st.calls + 1 }, v)
  | "exit" =>
    match st.open_, st.chain with
    | some false, some c =>
      match parseLog (obsField obs "log") with
      | .error e => (st, v.setDiff s!"step={i} {e}")
      | .ok log =>
        let v := match specExit st false log with | some m => v.setViol s!"step={i} {m}" | none => v
        let v := v.expect i opText s!"log={logStr (c.exit false)}" obs
        ({ st with open_ := none }, v)
    | _, _ => (st, v.expect i opText "noentry" obs)
  | "rexit" =>
    match st.rawBlocked, st.chain with
    | some blocked, some c =>
      match parseLog (obsField obs "log") with
      | .error e => (st, v.setDiff s!"step={i} {e}")
      | .ok log =>
        let v := match specExit st blocked log with | some m => v.setViol s!"step={i} {m}" | none => v
        (st, v.expect i opText s!"log={logStr (c.exit blocked)}" obs)
    | _, _ => (st, v.expect i opText "noentry" obs)
  | _ => (st, v.setDiff s!"step={i} bad-op [{opText}]")

def checkCase (lines : List (String × String)) : Verdict :=
  let rec go (st : St) (v : Verdict) (i : Nat) : List (String × String) → Verdict
    | [] => { v with steps := i }
    | (o, b) :: rest => let (st', v') := stepCase st v i o b; go st' v' (i + 1) rest
  go {} {} 0 lines

end Sentinel.DriverC13
