import Sentinel.SlotChain
/-! Driver for C13: correspondence (model vs implementation log) and Spec on the implementation's log. -/
namespace Sentinel.DriverC13
open Sentinel Sentinel.SlotChain

def parseRes (s : String) : Except String Res :=
  if s == "P" then .ok .pass
  else if s.startsWith "B" then do let n ← parseNat "B" (s.drop 1).toString; pure (.blocked n)
  else if s.startsWith "W" then do let n ← parseNat "W" (s.drop 1).toString; pure (.wait n)
  else .error s!"bad-op: check result {s}"

def enumFrom {α : Type} : Nat → List α → List (Nat × α)
  | _, [] => []
  | n, x :: xs => (n, x) :: enumFrom (n + 1) xs

def parseSlots (l : List String) : Except String (List Slot) :=
  (enumFrom 0 l).mapM (fun (i, s) => do let o ← parseNat "order" s; pure ⟨i, o⟩)

def parseChecks (l : List String) : Except String (List Check) :=
  (enumFrom 0 l).mapM (fun (i, s) =>
    match s.splitOn ":" with
    | [o, r] => do let o ← parseNat "order" o; let r ← parseRes r; pure ⟨i, o, r⟩
    | _ => .error s!"bad-op: check spec {s}")

def parseEvent (s : String) : Except String Event :=
  if s.startsWith "pre" then do let n ← parseNat "pre" (s.drop 3).toString; pure (.pre n)
  else if s.startsWith "chk" then do let n ← parseNat "chk" (s.drop 3).toString; pure (.chk n)
  else if s.startsWith "pass" then do let n ← parseNat "pass" (s.drop 4).toString; pure (.pass n)
  else if s.startsWith "done" then do let n ← parseNat "done" (s.drop 4).toString; pure (.done n)
  else if s.startsWith "blk" then
    match (s.drop 3).toString.splitOn ":" with
    | [i, ty, src] => do
      let i ← parseNat "blk" i
      let ty ← parseNat "ty" ty
      let src ← parseNat "src" ((src.drop 4).toString)
      pure (.blk i ty src)
    | _ => .error s!"bad-obs: event {s}"
  else .error s!"bad-obs: event {s}"

def parseLog (s : String) : Except String (List Event) := (listOf s ";").mapM parseEvent

def ascending : List Nat → Bool
  | [] => true
  | [_] => true
  | a :: b :: rest => a ≤ b && ascending (b :: rest)

def isPermIds (a b : List Nat) : Bool :=
  a.length == b.length && a.all (fun x => a.count x == b.count x) && b.all (fun x => a.count x == b.count x)

/-- reorder `added` in the order of `ids`, if `ids` is a permutation of the added ids -/
def adopt {α : Type} (getId : α → Nat) (added : List α) (ids : List Nat) : Option (List α) :=
  if isPermIds (added.map getId) ids then ids.mapM (fun i => added.find? (fun a => getId a == i)) else none

structure St where
  pres : List Slot := []
  checks : List Check := []
  stats : List Slot := []
  chain : Option Chain := none         -- with the order adopted from the first build
  open_ : Option Bool := none          -- some blocked? after build

/-- Spec evaluated on the implementation's own observation of `build` (independent of the model). -/
def specBuild (st : St) (res : String) (log : List Event) : Option String :=
  let preIds := log.filterMap (fun e => match e with | .pre i => some i | _ => none)
  let chkIds := log.filterMap (fun e => match e with | .chk i => some i | _ => none)
  let noteIds := log.filterMap (fun e => match e with | .pass i => some i | .blk i _ _ => some i | _ => none)
  let doneIds := log.filterMap (fun e => match e with | .done i => some i | _ => none)
  let kindOf : Event → Nat := fun e => match e with | .pre _ => 0 | .chk _ => 1 | .pass _ => 2 | .blk _ _ _ => 2 | .done _ => 3
  let ordOf {α : Type} (getId : α → Nat) (getOrd : α → Nat) (l : List α) (i : Nat) : Nat :=
    match l.find? (fun a => getId a == i) with | some a => getOrd a | none => 0
  let anyBlocked := st.checks.any (fun c => c.res.isBlocked)
  if !ascending (log.map kindOf) then some "phases out of order (prepare, check, stat)"
  else if !isPermIds (st.pres.map (·.id)) preIds then some "prepare slots not run exactly once each"
  else if !isPermIds (st.checks.map (·.id)) chkIds then some "check slots not run exactly once each"
  else if !isPermIds (st.stats.map (·.id)) noteIds then some "stat slots not notified exactly once each"
  else if !ascending (preIds.map (ordOf (·.id) (·.order) st.pres)) then some "prepare slots not in ascending order"
  else if !ascending (chkIds.map (ordOf (·.id) (·.order) st.checks)) then some "check slots not in ascending order"
  else if !ascending (noteIds.map (ordOf (·.id) (·.order) st.stats)) then some "stat slots not in ascending order"
  else if doneIds ≠ [] then some "completion notified during build"
  else if res == "pass" then
    if anyBlocked then some "a check slot blocked but the entry passed"
    else if log.any (fun e => match e with | .blk _ _ _ => true | _ => false) then some "passed entry notified as blocked"
    else none
  else
    match res.splitOn ":" with
    | ["blocked", ty, src] =>
      match ty.toNat?, ((src.drop 4).toString).toNat? with
      | some ty, some src =>
        if !anyBlocked then some "entry blocked although no check slot blocked"
        else if !(st.checks.any (fun c => c.id == src && c.res == .blocked ty)) then
          some "error delivered was not produced by a blocking slot"
        else if log.any (fun e => match e with | .pass _ => true | .blk _ t s => !(t == ty && s == src) | _ => false) then
          some "stat slots notified with a different verdict than the one returned"
        else none
      | _, _ => some s!"unparsable result {res}"
    | _ => some s!"unparsable result {res}"

def specExit (st : St) (blocked : Bool) (log : List Event) : Option String :=
  let doneIds := log.filterMap (fun e => match e with | .done i => some i | _ => none)
  if log.length ≠ doneIds.length then some "non-completion call during exit"
  else if blocked then (if doneIds ≠ [] then some "completion notified for a blocked entry" else none)
  else if !isPermIds (st.stats.map (·.id)) doneIds then some "completion not notified exactly once per stat slot"
  else none

def obsField (obs : String) (k : String) : String :=
  match (tokens obs).filterMap (fun t => match splitFirst t "=" with
      | some (a, b) => if a == k then some b else none
      | none => none) with
  | v :: _ => v
  | [] => ""

def stepCase (st : St) (v : Verdict) (i : Nat) (opText obs : String) : St × Verdict :=
  let op := Op.parse opText
  match op.name with
  | "chain" =>
    match parseSlots (op.list "pre"), parseChecks (op.list "chk"), parseSlots (op.list "stat") with
    | .ok p, .ok c, .ok s =>
      let v := v.expect i opText "ok" obs
      let v := if c.any (fun x => x.res.isBlocked) then v.addTag "blocking-check" else v.addTag "no-blocking-check"
      let v := if c.any (fun x => match x.res with | .wait _ => true | _ => false) then v.addTag "wait" else v
      let v := if !(ascending (p.map (·.order)) && ascending (c.map (·.order)) && ascending (s.map (·.order))) then v.addTag "added-unsorted" else v
      ({ st with pres := p, checks := c, stats := s, chain := none }, v)
    | _, _, _ => (st, v.setDiff s!"step={i} bad-op [{opText}]")
  | "build" =>
    let res := obsField obs "res"
    match parseLog (obsField obs "log") with
    | .error e => (st, v.setDiff s!"step={i} {e}")
    | .ok log =>
      let v := match specBuild st res log with | some m => v.setViol s!"step={i} {m}" | none => v
      -- adopt the implementation's order among equal keys
      let preIds := log.filterMap (fun e => match e with | .pre i => some i | _ => none)
      let chkIds := log.filterMap (fun e => match e with | .chk i => some i | _ => none)
      let noteIds := log.filterMap (fun e => match e with | .pass i => some i | .blk i _ _ => some i | _ => none)
      let chain : Option Chain := match st.chain with
        | some c => some c
        | none =>
          match adopt (·.id) st.pres preIds, adopt (·.id) st.checks chkIds, adopt (·.id) st.stats noteIds with
          | some p, some c, some s =>
            if ascending (p.map (·.order)) && ascending (c.map (·.order)) && ascending (s.map (·.order))
            then some ⟨p, c, s⟩ else none
          | _, _, _ => none
      match chain with
      | none => ({ st with open_ := none }, v.setDiff s!"step={i} op=[build] implementation order is not a sorted permutation of the added slots: [{obs}]")
      | some c =>
        let (r, mlog) := c.build
        let v := v.expect i opText s!"res={resStr r} log={logStr mlog}" obs
        let v := if r.isSome then v.addTag "blocked" else v.addTag "passed"
        ({ st with chain := some c, open_ := some r.isSome }, v)
  | "exit" =>
    match st.open_, st.chain with
    | some false, some c =>
      match parseLog (obsField obs "log") with
      | .error e => (st, v.setDiff s!"step={i} {e}")
      | .ok log =>
        let v := match specExit st false log with | some m => v.setViol s!"step={i} {m}" | none => v
        let v := v.expect i opText s!"log={logStr (c.exit false)}" obs
        ({ st with open_ := none }, v)
    | _, _ => (st, v.expect i opText "noentry" obs)
  | _ => (st, v.setDiff s!"step={i} bad-op [{opText}]")

def checkCase (lines : List (String × String)) : Verdict :=
  let rec go (st : St) (v : Verdict) (i : Nat) : List (String × String) → Verdict
    | [] => { v with steps := i }
    | (o, b) :: rest => let (st', v') := stepCase st v i o b; go st' v' (i + 1) rest
  go {} {} 0 lines

end Sentinel.DriverC13
