import Sentinel.Proto
/-!
Model of `core/base/slot_chain.rs` + `api/base.rs::EntryBuilder::build` + `entry.rs::exit`
(C13). One definition per Rust function, same control flow.
-/
namespace Sentinel.SlotChain

/-- what a rule-check slot returns (`TokenResult`) -/
inductive Res where
  | pass
  | blocked (ty : Nat)
  | wait (ns : Nat)
  deriving Repr, DecidableEq, Inhabited

def Res.isBlocked : Res → Bool
  | .blocked _ => true
  | _ => false

structure Slot where
  id : Nat
  order : Nat
  deriving Repr, DecidableEq, Inhabited

structure Check where
  id : Nat
  order : Nat
  res : Res
  deriving Repr, DecidableEq, Inhabited

/-- calls observed on the recording slots -/
inductive Event where
  | pre (id : Nat)
  | chk (id : Nat)
  | pass (id : Nat)
  | blk (id : Nat) (ty : Nat) (src : Nat)   -- stat slot `id` told: blocked with type `ty` by check slot `src`
  | done (id : Nat)
  deriving Repr, DecidableEq, Inhabited

structure Chain where
  pres : List Slot
  checks : List Check
  stats : List Slot
  deriving Repr, Inhabited

/-- stable insertion used as the model of `push` + `sort_unstable_by_key` (the implementation may
order equal keys differently; the driver adopts the order it observes, theorems hold for any order) -/
def insertBy {α : Type} (key : α → Nat) (x : α) : List α → List α
  | [] => [x]
  | y :: ys => if key x < key y then x :: y :: ys else y :: insertBy key x ys

def Chain.empty : Chain := ⟨[], [], []⟩
def Chain.addPre (c : Chain) (s : Slot) : Chain := { c with pres := insertBy (·.order) s c.pres }
def Chain.addCheck (c : Chain) (s : Check) : Chain := { c with checks := insertBy (·.order) s c.checks }
def Chain.addStat (c : Chain) (s : Slot) : Chain := { c with stats := insertBy (·.order) s c.stats }

/-- `SlotChain::entry`, the loop over `rule_checks`: the context result starts as Pass and every
blocked result overwrites it (a later Pass or Wait does not). `none` = not blocked. -/
def verdict (checks : List Check) : Option (Nat × Nat) :=
  checks.foldl (fun acc c => match c.res with
    | .blocked ty => some (ty, c.id)
    | _ => acc) none

def statNote (v : Option (Nat × Nat)) (s : Slot) : Event :=
  match v with
  | none => .pass s.id
  | some (ty, src) => .blk s.id ty src

/-- `SlotChain::entry` -/
def Chain.entry (c : Chain) : Option (Nat × Nat) × List Event :=
  let v := verdict c.checks
  (v, c.pres.map (fun s => .pre s.id) ++ c.checks.map (fun s => .chk s.id) ++ c.stats.map (statNote v))

/-- `SlotChain::entry` on a context whose stored result is `r0` when the check phase starts — left there by an earlier entry
made on the same context, or written by a preparation slot. `reset_result_to_pass` discards it: the fold over the check
slots starts from "not blocked" whatever `r0` is. -/
def Chain.entryOn (c : Chain) (r0 : Option (Nat × Nat)) : Option (Nat × Nat) × List Event :=
  let start : Option (Nat × Nat) := r0.bind (fun _ => none)          -- reset_result_to_pass
  let v := c.checks.foldl (fun acc c => match c.res with
    | .blocked ty => some (ty, c.id)
    | _ => acc) start
  (v, c.pres.map (fun s => .pre s.id) ++ c.checks.map (fun s => .chk s.id) ++ c.stats.map (statNote v))

/-- `SentinelEntry::exit` → `SlotChain::exit` (no exit handlers are registered by these slots) -/
def Chain.exit (c : Chain) (blocked : Bool) : List Event :=
  if blocked then [] else c.stats.map (fun s => .done s.id)

/-- `EntryBuilder::build`: a blocked entry is exited internally and an error is returned -/
def Chain.build (c : Chain) : Option (Nat × Nat) × List Event :=
  let (v, log) := c.entry
  match v with
  | some _ => (v, log ++ c.exit true)
  | none => (v, log)

/-! ### executable glue for the driver -/

def Event.toStr : Event → String
  | .pre i => s!"pre{i}"
  | .chk i => s!"chk{i}"
  | .pass i => s!"pass{i}"
  | .blk i ty src => s!"blk{i}:{ty}:slot{src}"
  | .done i => s!"done{i}"

def logStr (l : List Event) : String := ";".intercalate (l.map Event.toStr)

def resStr : Option (Nat × Nat) → String
  | none => "pass"
  | some (ty, src) => s!"blocked:{ty}:slot{src}"

end Sentinel.SlotChain
