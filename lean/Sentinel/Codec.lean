import Sentinel.Validity
/-!
C18 (a): the derive layer of the five rule types as a schema-driven codec over JSON value trees.

What is specific to this repository — field names, field order, field types, the enum variants that can be written, the
`#[serde(default)]` defaults — is data (`Schema`); `encode`/`decode` follow `serde_json`'s typed (de)serialisation of the
value kinds involved. The JSON *text* layer is `serde_json`'s and is trusted.
-/
namespace Sentinel

/-- a JSON scalar -/
inductive JAtom where
  | null
  | bool (b : Bool)
  | nat (n : Nat)        -- a non-negative integer literal
  | neg (n : Nat)        -- the integer −n, n > 0
  | flt (x : Fl)         -- a number written with a fraction or exponent (finite)
  | str (s : String)
  deriving Repr, DecidableEq, Inhabited

/-- a JSON value as far as rule documents go: scalars, flat objects, and "an array" (always the wrong type here) -/
inductive JVal where
  | atom (a : JAtom)
  | obj (kvs : List (String × JAtom))
  | arr
  deriving Repr, DecidableEq, Inhabited

abbrev Doc := List (String × JVal)

inductive FTy where
  | str
  | uint (max : Nat)
  | sint (min max : Nat)          -- −min ..= max
  | f64
  | enm (variants : List String)  -- unit variants that are not `#[serde(skip)]`
  | mapU64
  deriving Repr, DecidableEq, Inhabited

inductive FVal where
  | str (s : String)
  | nat (n : Nat)
  | int (i : Int)
  | flt (x : Fl)
  | enm (name : String)
  | map (m : List (String × Nat))
  deriving Repr, DecidableEq, Inhabited

def u64Max : Nat := 18446744073709551615

/-- the value has the field's Rust type -/
def FTy.wellTyped : FTy → FVal → Bool
  | .str, .str _ => true
  | .uint max, .nat n => n ≤ max
  | .sint min max, .int i => (-(min : Int) ≤ i) && (i ≤ (max : Int))
  | .f64, .flt _ => true
  | .enm _, .enm _ => true
  | .mapU64, .map m => m.all (fun p => p.2 ≤ u64Max)
  | _, _ => false

/-- … and can be written and read back: finite floats, enum variants that are not skipped -/
def FTy.serialisable : FTy → FVal → Bool
  | .f64, .flt (.nonneg _) => true
  | .f64, .flt (.neg _) => true
  | .f64, .flt _ => false
  | .enm vs, .enm s => vs.contains s
  | _, _ => true

/-- `Serialize`: what `serde_json::to_value` yields for a field (non-finite floats become `null`) -/
def encode : FVal → JVal
  | .str s => .atom (.str s)
  | .nat n => .atom (.nat n)
  | .int i => if i < 0 then .atom (.neg (-i).toNat) else .atom (.nat i.toNat)
  | .flt (.nonneg v) => .atom (.flt (.nonneg v))
  | .flt (.neg v) => .atom (.flt (.neg v))
  | .flt _ => .atom .null
  | .enm s => .atom (.str s)
  | .map m => .obj (m.map (fun p => (p.1, JAtom.nat p.2)))

def decodeMap : List (String × JAtom) → Option (List (String × Nat))
  | [] => some []
  | (k, .nat n) :: rest =>
    if n ≤ u64Max then (decodeMap rest).map ((k, n) :: ·) else none
  | _ :: _ => none

/-- `Deserialize` of one field from a JSON value; `none` = a deserialisation error -/
def decode : FTy → JVal → Option FVal
  | .str, .atom (.str s) => some (.str s)
  | .uint max, .atom (.nat n) => if n ≤ max then some (.nat n) else none
  | .sint _ max, .atom (.nat n) => if n ≤ max then some (.int n) else none
  | .sint min _, .atom (.neg n) => if n ≤ min then some (.int (-(n : Int))) else none
  | .f64, .atom (.nat n) => some (.flt (.nonneg (F64.ofNat n)))
  | .f64, .atom (.neg n) => some (.flt (.neg (F64.ofNat n)))
  | .f64, .atom (.flt x) => some (.flt x)
  | .enm vs, .atom (.str s) => if vs.contains s then some (.enm s) else none
  | .enm vs, .obj [(s, .null)] => if vs.contains s then some (.enm s) else none
  | .mapU64, .obj kvs => (decodeMap kvs).map FVal.map
  | _, _ => none

structure Field where
  name : String
  ty : FTy
  dflt : FVal
  deriving Repr, Inhabited

abbrev Schema := List Field
abbrev Rec := List FVal

def lookupAll (doc : Doc) (k : String) : List JVal := (doc.filter (fun p => p.1 == k)).map (·.2)

/-- `Serialize` of the struct: one entry per field, in declaration order -/
def toDoc : Schema → Rec → Doc
  | f :: fs, v :: vs => (f.name, encode v) :: toDoc fs vs
  | _, _ => []

/-- `Deserialize` of a `#[serde(default)]` struct from an object: unknown keys are ignored, a missing field takes its default,
a field given twice or with a value of the wrong type is an error -/
def fromDoc : Schema → Doc → Option Rec
  | [], _ => some []
  | f :: fs, doc =>
    match lookupAll doc f.name with
    | [] => (fromDoc fs doc).map (f.dflt :: ·)
    | [v] =>
      match decode f.ty v with
      | some x => (fromDoc fs doc).map (x :: ·)
      | none => none
    | _ => none

/-- a rule list document (`rule_json_array_parser` = `serde_json::from_str::<Vec<Rule>>`): every element must parse -/
def fromDocs (s : Schema) : List Doc → Option (List Rec)
  | [] => some []
  | d :: ds =>
    match fromDoc s d with
    | some r => (fromDocs s ds).map (r :: ·)
    | none => none

def Schema.wellTyped : Schema → Rec → Bool
  | [], [] => true
  | f :: fs, v :: vs => f.ty.wellTyped v && f.ty.serialisable v && Schema.wellTyped fs vs
  | _, _ => false

/-! ## the five schemas -/

def u32M : Nat := 4294967295
def i64M : Nat := 9223372036854775807
def fZero : FVal := .flt (.nonneg F64.zero)

def flowSchema : Schema := [
  ⟨"id", .str, .str ""⟩, ⟨"resource", .str, .str ""⟩, ⟨"ref_resource", .str, .str ""⟩,
  ⟨"calculate_strategy", .enm ["Direct", "WarmUp", "MemoryAdaptive"], .enm "Direct"⟩,
  ⟨"control_strategy", .enm ["Reject", "Throttling"], .enm "Reject"⟩,
  ⟨"relation_strategy", .enm ["Current", "Associated"], .enm "Current"⟩,
  ⟨"threshold", .f64, fZero⟩,
  ⟨"warm_up_period_sec", .uint u32M, .nat 0⟩, ⟨"warm_up_cold_factor", .uint u32M, .nat 0⟩,
  ⟨"max_queueing_time_ms", .uint u32M, .nat 0⟩, ⟨"stat_interval_ms", .uint u32M, .nat 0⟩,
  ⟨"low_mem_usage_threshold", .uint u64Max, .nat 0⟩, ⟨"high_mem_usage_threshold", .uint u64Max, .nat 0⟩,
  ⟨"mem_low_water_mark", .uint u64Max, .nat 0⟩, ⟨"mem_high_water_mark", .uint u64Max, .nat 0⟩]

def brSchema : Schema := [
  ⟨"id", .str, .str ""⟩, ⟨"resource", .str, .str ""⟩,
  ⟨"strategy", .enm ["SlowRequestRatio", "ErrorRatio", "ErrorCount"], .enm "SlowRequestRatio"⟩,
  ⟨"retry_timeout_ms", .uint u32M, .nat 0⟩, ⟨"min_request_amount", .uint u64Max, .nat 0⟩,
  ⟨"stat_interval_ms", .uint u32M, .nat 0⟩, ⟨"stat_sliding_window_bucket_count", .uint u32M, .nat 0⟩,
  ⟨"max_allowed_rt_ms", .uint u64Max, .nat 0⟩, ⟨"threshold", .f64, fZero⟩]

def hsSchema : Schema := [
  ⟨"id", .str, .str ""⟩, ⟨"resource", .str, .str ""⟩,
  ⟨"metric_type", .enm ["Concurrency", "QPS"], .enm "Concurrency"⟩,
  ⟨"control_strategy", .enm ["Reject", "Throttling"], .enm "Reject"⟩,
  ⟨"param_index", .sint (i64M + 1) i64M, .int 0⟩, ⟨"param_key", .str, .str ""⟩,
  ⟨"threshold", .uint u64Max, .nat 0⟩, ⟨"max_queueing_time_ms", .uint u64Max, .nat 0⟩, ⟨"burst_count", .uint u64Max, .nat 0⟩,
  ⟨"duration_in_sec", .uint u64Max, .nat 0⟩, ⟨"params_max_capacity", .uint u64Max, .nat 0⟩,
  ⟨"specific_items", .mapU64, .map []⟩]

def isoSchema : Schema := [
  ⟨"id", .str, .str ""⟩, ⟨"resource", .str, .str ""⟩, ⟨"metric_type", .enm ["Concurrency"], .enm "Concurrency"⟩,
  ⟨"threshold", .uint u32M, .nat 0⟩]

def sysSchema : Schema := [
  ⟨"id", .str, .str ""⟩, ⟨"metric_type", .enm ["Load", "AvgRT", "Concurrency", "InboundQPS", "CpuUsage"], .enm "Load"⟩,
  ⟨"threshold", .f64, fZero⟩, ⟨"strategy", .enm ["NoAdaptive", "BBR"], .enm "NoAdaptive"⟩]

def schemaOf (fam : String) : Option Schema :=
  match fam with
  | "flow" => some flowSchema | "br" => some brSchema | "hs" => some hsSchema | "iso" => some isoSchema | "sys" => some sysSchema
  | _ => none

end Sentinel
