/-!
C18 (b): `MetricItem`'s hand-written `Display` and `from_string`, on lists of characters. The separator `|`, the digits, `+`,
`:` and `_` are ASCII, so working on characters is the same as working on the UTF-8 bytes the Rust code sees.
-/
namespace Sentinel

def digitChar : Nat → Char
  | 0 => '0' | 1 => '1' | 2 => '2' | 3 => '3' | 4 => '4' | 5 => '5' | 6 => '6' | 7 => '7' | 8 => '8' | _ => '9'

def digitVal? (c : Char) : Option Nat :=
  if c = '0' then some 0 else if c = '1' then some 1 else if c = '2' then some 2 else if c = '3' then some 3
  else if c = '4' then some 4 else if c = '5' then some 5 else if c = '6' then some 6 else if c = '7' then some 7
  else if c = '8' then some 8 else if c = '9' then some 9 else none

/-- decimal digits of `n`, least significant first (`fuel > n` suffices) -/
def revDigits : Nat → Nat → List Nat
  | 0, _ => []
  | f + 1, n => if n < 10 then [n] else (n % 10) :: revDigits f (n / 10)

/-- `u64`/`u32`/`u8` `Display` -/
def printNat (n : Nat) : List Char := (revDigits (n + 1) n).reverse.map digitChar

def parseDigitsAux : List Char → Nat → Option Nat
  | [], acc => some acc
  | c :: cs, acc =>
    match digitVal? c with
    | some d => parseDigitsAux cs (acc * 10 + d)
    | none => none

/-- `str::parse::<uN>()`: an optional `+`, then at least one ASCII digit, nothing else; values above the type's maximum are errors -/
def stripPlus : List Char → List Char
  | '+' :: r => r
  | cs => cs

def parseNatB (bound : Nat) (cs : List Char) : Option Nat :=
  if (stripPlus cs).isEmpty then none
  else
    match parseDigitsAux (stripPlus cs) 0 with
    | some n => if n ≤ bound then some n else none
    | none => none

/-- `str::split('|')` -/
def splitBar : List Char → List (List Char)
  | [] => [[]]
  | c :: cs =>
    if c = '|' then [] :: splitBar cs
    else
      match splitBar cs with
      | [] => [[c]]
      | f :: fs => (c :: f) :: fs

/-- the fields joined by `|` -/
def joinBar : List (List Char) → List Char
  | [] => []
  | [f] => f
  | f :: g :: rest => f ++ '|' :: joinBar (g :: rest)

/-- `resource.replace("|", "_")` -/
def sanitize (cs : List Char) : List Char := cs.map (fun c => if c = '|' then '_' else c)

def pad2 (n : Nat) : List Char := [digitChar (n / 10 % 10), digitChar (n % 10)]

/-- `format_time_millis`: `[hour]:[minute]:[second]` of the UTC time of day -/
def timeStr (tsMillis : Nat) : List Char :=
  let s := tsMillis / 1000
  pad2 (s / 3600 % 24) ++ ':' :: pad2 (s / 60 % 60) ++ ':' :: pad2 (s % 60)

structure MItem where
  resource : List Char
  rtype : Nat          -- `ResourceType as u8`, 0..6
  ts : Nat
  pass : Nat
  block : Nat
  complete : Nat
  error : Nat
  rt : Nat
  occupied : Nat
  conc : Nat
  deriving Repr, DecidableEq, Inhabited

def u64MaxL : Nat := 18446744073709551615
def u32MaxL : Nat := 4294967295

/-- `impl Display for MetricItem` -/
def MItem.toLine (it : MItem) : List Char :=
  joinBar [printNat it.ts, timeStr it.ts, sanitize it.resource, printNat it.pass, printNat it.block, printNat it.complete,
    printNat it.error, printNat it.rt, printNat it.occupied, printNat it.conc, printNat it.rtype]

/-- `u8 → ResourceType → u8` -/
def rtypeOfU8 (n : Nat) : Nat := if 1 ≤ n ∧ n ≤ 6 then n else 0

/-- `MetricItem::from_string`; `none` = an error -/
def MItem.fromLine (line : List Char) : Option MItem :=
  if line.isEmpty then none
  else
    let arr := splitBar line
    if arr.length < 8 then none
    else
      match parseNatB u64MaxL (arr.getD 0 []), parseNatB u64MaxL (arr.getD 3 []), parseNatB u64MaxL (arr.getD 4 []),
            parseNatB u64MaxL (arr.getD 5 []), parseNatB u64MaxL (arr.getD 6 []), parseNatB u64MaxL (arr.getD 7 []) with
      | some ts, some p, some b, some c, some e, some rt =>
        let base : MItem := { resource := arr.getD 2 [], rtype := 0, ts := ts, pass := p, block := b, complete := c, error := e, rt := rt,
                              occupied := 0, conc := 0 }
        if arr.length < 9 then some base
        else
          match parseNatB u64MaxL (arr.getD 8 []) with
          | none => none
          | some occ =>
            let i1 := { base with occupied := occ }
            if arr.length < 10 then some i1
            else
              match parseNatB u32MaxL (arr.getD 9 []) with
              | none => none
              | some cc =>
                let i2 := { i1 with conc := cc }
                if arr.length < 11 then some i2
                else
                  match parseNatB 255 (arr.getD 10 []) with
                  | none => none
                  | some ty => some { i2 with rtype := rtypeOfU8 ty }
      | _, _, _, _, _, _ => none

end Sentinel
