import Sentinel.F64
import Sentinel.LeapArray
import Sentinel.Breaker
import Sentinel.Hotspot
/-!
C12: the five `SentinelRule::is_valid` functions, clause by clause, and the operations on the way from an accepted rule to an
enforced one that can panic in Rust (`unwrap`, indexing, `try_into().unwrap()`, unsigned subtraction), written as
`Except Panic`: the panic is a value here, and "cannot panic" is a theorem about these functions.
-/
namespace Sentinel

/-- an `f64` as far as validity checks can tell values apart -/
inductive Fl where
  | nan | negInf | posInf
  | neg (v : F64)      -- −v with v > 0
  | nonneg (v : F64)   -- v ≥ 0
  deriving Repr, DecidableEq, Inhabited

namespace Fl
/-- `x < 0.0` -/
def ltZero : Fl → Bool
  | .negInf | .neg _ => true
  | _ => false
/-- `x > n` -/
def gtNat (x : Fl) (n : Nat) : Bool :=
  match x with
  | .posInf => true
  | .nonneg v => F64.lt (F64.ofNat n) v
  | _ => false
end Fl

inductive FCalc where | direct | warmUp | memAdaptive | custom
  deriving Repr, DecidableEq, Inhabited
inductive FCtl where | reject | throttling | custom
  deriving Repr, DecidableEq, Inhabited

/-- `flow::Rule` -/
structure VFlow where
  resource : String
  refResource : String := ""
  calcs : FCalc := .direct
  ctl : FCtl := .reject
  assoc : Bool := false
  thr : Fl
  period : Nat := 0
  cold : Nat := 0
  maxq : Nat := 0
  ivl : Nat := 0
  lmu : Nat := 0   -- low_mem_usage_threshold
  hmu : Nat := 0   -- high_mem_usage_threshold
  lwm : Nat := 0   -- mem_low_water_mark
  hwm : Nat := 0   -- mem_high_water_mark
  deriving Repr, Inhabited

/-- `flow::Rule::is_valid`: the first clause that rejects, `none` = accepted -/
def VFlow.check (r : VFlow) (totalMem : Nat) : Option String :=
  if r.resource.isEmpty then some "resource"
  else if r.thr.ltZero then some "threshold"
  else if r.assoc && r.refResource.isEmpty then some "ref"
  else if r.calcs = .warmUp ∧ r.period = 0 then some "period"
  else if r.calcs = .warmUp ∧ r.cold = 1 then some "cold"
  else if r.calcs = .memAdaptive ∧ (r.lwm = 0 ∨ r.hwm = 0 ∨ r.hmu = 0 ∨ r.lmu = 0) then some "memzero"
  else if r.calcs = .memAdaptive ∧ r.hmu ≥ r.lmu then some "memusage"
  else if r.calcs = .memAdaptive ∧ r.hwm > totalMem then some "memtotal"
  else if r.calcs = .memAdaptive ∧ r.lwm ≥ r.hwm then some "memmark"
  else none

inductive BStrat where | slow | ratio | count | custom
  deriving Repr, DecidableEq, Inhabited

/-- `circuitbreaker::Rule` -/
structure VBr where
  resource : String
  strat : BStrat
  retry : Nat
  minReq : Nat := 0
  ivl : Nat
  buckets : Nat := 0
  maxRt : Nat := 0
  thr : Fl
  deriving Repr, Inhabited

def VBr.check (r : VBr) : Option String :=
  if r.resource.isEmpty then some "resource"
  else if r.ivl = 0 then some "interval"
  else if r.retry = 0 then some "retry"
  else if r.thr.ltZero then some "threshold"
  else if r.strat ≠ .count ∧ r.thr.gtNat 1 then some "ratio"
  else none

/-- `get_rule_stat_sliding_window_bucket_count` -/
def VBr.bucketCount (r : VBr) : Nat :=
  if r.buckets = 0 ∨ r.ivl % r.buckets ≠ 0 then 1 else r.buckets

/-- `hotspot::Rule` -/
structure VHs where
  resource : String
  qps : Bool
  ctl : FCtl := .reject
  idx : Int := 0
  key : String := ""
  thr : Nat := 0
  dur : Nat := 0
  deriving Repr, Inhabited

def VHs.check (r : VHs) : Option String :=
  if r.resource.isEmpty then some "resource"
  else if r.qps ∧ r.dur = 0 then some "duration"
  else if r.idx > 0 ∧ !r.key.isEmpty then some "exclusive"
  else none

/-- `isolation::Rule` -/
structure VIso where
  resource : String
  thr : Nat
  deriving Repr, Inhabited

def VIso.check (r : VIso) : Option String :=
  if r.resource.isEmpty then some "resource"
  else if r.thr = 0 then some "threshold"
  else none

inductive SMetric where | load | rt | conc | qps | cpu
  deriving Repr, DecidableEq, Inhabited

/-- `system::Rule` -/
structure VSys where
  metric : SMetric
  thr : Fl
  deriving Repr, Inhabited

def VSys.check (r : VSys) : Option String :=
  if r.thr.ltZero then some "threshold"
  else if r.metric = .cpu ∧ (r.thr.gtNat 100 ∨ r.thr.ltZero) then some "cpu"
  else if r.metric = .load ∧ (r.thr.gtNat 1 ∨ r.thr.ltZero) then some "load"
  else none

/-! ## operations that can panic -/

inductive Panic where
  | unwrapNone (site : String)
  | unwrapErr (site : String)
  | indexOutOfBounds (site : String)
  | arithOverflow (site : String)
  deriving Repr, DecidableEq, Inhabited

def u32Max : Nat := 4294967295
def i64Max : Nat := 9223372036854775807

/-- `a - b` on an unsigned integer (panics below zero when overflow checks are on) -/
def subU (site : String) (a b : Nat) : Except Panic Nat :=
  if b ≤ a then .ok (a - b) else .error (.arithOverflow site)

/-- `a + b` on a `u32` -/
def addU32 (site : String) (a b : Nat) : Except Panic Nat :=
  if a + b ≤ u32Max then .ok (a + b) else .error (.arithOverflow site)

/-- `u64 → i64` by `try_into().unwrap()` -/
def tryIntoI64 (site : String) (n : Nat) : Except Panic Nat :=
  if n ≤ i64Max then .ok n else .error (.unwrapErr site)

/-- `ThrottlingChecker::new`: the two `milli2nano(..).try_into().unwrap()` -/
def throttlingNew (maxqMs ivlMs : Nat) : Except Panic (Nat × Nat) :=
  match tryIntoI64 "stat_interval_ns" ((if ivlMs = 0 then 1000 else ivlMs) * 1000000) with
  | .error e => .error e
  | .ok ivlNs =>
    match tryIntoI64 "max_queueing_time_ns" (maxqMs * 1000000) with
    | .error e => .error e
    | .ok q => .ok (q, ivlNs)

/-- `WarmUpCalculator::new`: the cold factor in effect (3 replaces values ≤ 1). `cold_factor ± 1` is computed in `f64`
(before the repair: in `u32`, where `cold_factor + 1` overflowed at `u32::MAX`) -/
def coldEff (cold : Nat) : Nat := if cold ≤ 1 then 3 else cold

/-- `u64::saturating_add`, used for the token counts of the warm-up calculator (before the repair: `+`, which overflowed for
non-finite and huge thresholds, whose float-to-int casts saturate at `u64::MAX`) -/
def satAddU64 (a b : Nat) : Nat := min (a + b) 18446744073709551615

/-- the token counts of `WarmUpCalculator::new` from the two saturated casts `w = (period·thr/(cold−1)) as u64`,
`x = (period·thr/(cold+1)) as u64`; `max_token − warning_token` is a `u64` subtraction -/
def warmUpTokens (w x : Nat) : Except Panic (Nat × Nat × Nat) :=
  let maxTok := satAddU64 w (min (2 * x) 18446744073709551615)
  match subU "max_token - warning_token" maxTok w with
  | .error e => .error e
  | .ok d => .ok (w, maxTok, d)

/-- `CounterLeapArray::new(bucket_count, interval).unwrap()` in the three breaker constructors -/
def brCounterNew (r : VBr) : Except Panic Geo :=
  if leapNewOk r.bucketCount r.ivl then .ok ⟨r.bucketCount, r.ivl / r.bucketCount⟩
  else .error (.unwrapErr "CounterLeapArray::new")

/-- the sample count `generate_stat_for` (flow rule manager) derives from a rule's statistic interval, default configuration -/
def flowSampleCount (ivl : Nat) : Nat := if ivl > 500 ∧ ivl < 10000 ∧ ivl % 500 = 0 then ivl / 500 else 1

/-- which statistic a flow rule gets -/
inductive FlowStatKind where
  | default                      -- the resource node's default metric
  | reuse (sc ivl : Nat)         -- a reader over the resource node's global window
  | priv (sc ivl : Nat)          -- its own `BucketLeapArray` with a reader of the same geometry
  deriving Repr, DecidableEq, Inhabited

/-- `generate_stat_for` with its fallible steps explicit (default configuration: global window 20 x 500 ms): an `Err` of any step makes
`build_resource_traffic_shaping_controller` skip the rule - an accepted rule would then be neither reported nor enforced -/
def flowStatNew (ivl : Nat) : Except String FlowStatKind :=
  if ivl = 0 ∨ ivl = 1000 then .ok .default
  else
    let sc := flowSampleCount ivl
    if checkReuse sc ivl 20 10000 = 0 then .ok (.reuse sc ivl)            -- `generate_read_stat` repeats the same check
    else if !leapNewOk sc ivl then .error "BucketLeapArray::new"
    else if checkReuse sc ivl sc ivl ≠ 0 then .error "SlidingWindowMetric::new"
    else .ok (.priv sc ivl)

/-- the guarded indexing of `Controller::extract_list_args`, `args[idx as usize]` explicit -/
def argAtIdx (args : List String) (idx : Int) : Except Panic (Option String) :=
  if idx < 0 then .ok none
  else if idx.toNat ≥ args.length then .ok none
  else
    match args[idx.toNat]? with
    | some a => .ok (some a)
    | none => .error (.indexOutOfBounds "args[idx]")

/-- `Controller::extract_list_args`: negative indices count from the end -/
def argAt (args : List String) (paramIndex : Int) : Except Panic (Option String) :=
  argAtIdx args (if paramIndex < 0 then paramIndex + args.length else paramIndex)

/-- the statistics node an `Associated` flow rule is checked against (`flow::slot::can_pass_check`): the node of the
referenced resource if it exists; `none` lets the request pass. (Before the repair this was `get_resource_node(..).unwrap()`
followed by a downcast that always failed.) -/
def assocNode {ν : Type} (nodes : List (String × ν)) (ref : String) : Except Panic (Option ν) :=
  .ok ((nodes.find? (fun p => p.1 == ref)).map (·.2))

/-- `ConcurrencyStatSlot::on_completed`: the in-flight counter of a parameter value goes down by one and stays at zero when
the completing entry was admitted before the counter existed -/
def concRelease (counter : Nat) : Except Panic Nat := .ok (counter - 1)

/-- `perform_checking_for_concurrency_metric`: `counter + 1` on a `u64` -/
def concNext (counter : Nat) : Except Panic Nat :=
  if counter + 1 ≤ 18446744073709551615 then .ok (counter + 1) else .error (.arithOverflow "concurrency + 1")

/-! ## poisoning -/

/-- a global lock is poisoned when an operation panics while holding it; every later `lock().unwrap()` then panics -/
structure LockSt where
  poisoned : List String := []
  deriving Repr, Inhabited

/-- run `body` while holding `locks` -/
def LockSt.withLocks {α : Type} (s : LockSt) (locks : List String) (body : Except Panic α) : LockSt × Except Panic α :=
  match locks.find? (fun l => s.poisoned.contains l) with
  | some l => (s, .error (.unwrapErr s!"poisoned {l}"))
  | none =>
    match body with
    | .ok a => (s, .ok a)
    | .error e => ({ poisoned := locks ++ s.poisoned }, .error e)

end Sentinel
