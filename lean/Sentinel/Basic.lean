def hello := "world"
