import Sentinel.MetricLine
/-!
C19: the metric log. Model of `core/log/metric/{writer,reader,searcher,mod}.rs` over an explicit file system.

* A file is a list of bytes (`Nat`s below 256). The directory holds log files and index files, keyed by `FileId`:
  `⟨day, no⟩` stands for `<app>-metrics.log[.pid<p>].<date of day>[.<no>]` (`no = 0`: no running number).
  `filename_comparator` orders by date, then by number — on `FileId` that is the lexicographic order of `(day, no)`.
* The writer returns the *actions* it issues (create / append / remove, in program order); applying a prefix of that
  stream to the file system is exactly a crash state of the property.
* The searcher/reader work on the bytes: index entries are 16 bytes big-endian, log lines are split at `\n`, decoded as
  UTF-8 (a line that is not valid UTF-8 is skipped) and parsed by `MItem.fromLine` (C18).
-/
namespace Sentinel.MLog
open Sentinel

abbrev Bytes := List Nat

/-! ## bytes: big-endian u64, UTF-8, lines -/

def be64 (n : Nat) : Bytes :=
  [n / 72057594037927936 % 256, n / 281474976710656 % 256, n / 1099511627776 % 256, n / 4294967296 % 256,
   n / 16777216 % 256, n / 65536 % 256, n / 256 % 256, n % 256]

def unbe8 (a b c d e f g h : Nat) : Nat :=
  ((((((a * 256 + b) * 256 + c) * 256 + d) * 256 + e) * 256 + f) * 256 + g) * 256 + h

/-- `read_exact` of 8 bytes + `u64::from_be_bytes` -/
def unbe64 : Bytes → Option Nat
  | a :: b :: c :: d :: e :: f :: g :: h :: _ => some (unbe8 a b c d e f g h)
  | _ => none

/-- UTF-8 encoding of one scalar value -/
def utf8EncodeChar (c : Char) : Bytes :=
  let n := c.toNat
  if n < 128 then [n]
  else if n < 2048 then [192 + n / 64, 128 + n % 64]
  else if n < 65536 then [224 + n / 4096, 128 + n / 64 % 64, 128 + n % 64]
  else [240 + n / 262144, 128 + n / 4096 % 64, 128 + n / 64 % 64, 128 + n % 64]

def utf8Encode (cs : List Char) : Bytes := cs.flatMap utf8EncodeChar

def isCont (b : Nat) : Bool := 128 ≤ b && b < 192

/-- strict UTF-8 decoding (what `str::from_utf8` accepts): no overlong forms, no surrogates, nothing above U+10FFFF -/
def utf8Decode : Nat → Bytes → Option (List Char)
  | 0, _ => none
  | _ + 1, [] => some []
  | fuel + 1, b0 :: rest =>
    if b0 < 128 then (utf8Decode fuel rest).map (Char.ofNat b0 :: ·)
    else if 194 ≤ b0 ∧ b0 < 224 then
      match rest with
      | b1 :: r => if isCont b1 then (utf8Decode fuel r).map (Char.ofNat ((b0 - 192) * 64 + (b1 - 128)) :: ·) else none
      | _ => none
    else if 224 ≤ b0 ∧ b0 < 240 then
      match rest with
      | b1 :: b2 :: r =>
        if isCont b1 && isCont b2 && (b0 != 224 || 160 ≤ b1) && (b0 != 237 || b1 < 160) then
          (utf8Decode fuel r).map (Char.ofNat ((b0 - 224) * 4096 + (b1 - 128) * 64 + (b2 - 128)) :: ·)
        else none
      | _ => none
    else if 240 ≤ b0 ∧ b0 < 245 then
      match rest with
      | b1 :: b2 :: b3 :: r =>
        if isCont b1 && isCont b2 && isCont b3 && (b0 != 240 || 144 ≤ b1) && (b0 != 244 || b1 < 144) then
          (utf8Decode fuel r).map (Char.ofNat ((b0 - 240) * 262144 + (b1 - 128) * 4096 + (b2 - 128) * 64 + (b3 - 128)) :: ·)
        else none
      | _ => none
    else none

def decodeUtf8 (bs : Bytes) : Option (List Char) := utf8Decode (bs.length + 1) bs

/-- the pieces between `\n`s; a last piece without `\n` counts when it is not empty (`BufRead::lines`, `read_line`) -/
def splitLines : Bytes → List Bytes
  | [] => []
  | b :: bs =>
    if b = 10 then [] :: splitLines bs
    else
      match splitLines bs with
      | [] => [[b]]
      | l :: ls => (b :: l) :: ls

/-- `lines()` also drops one `\r` before the `\n` -/
def dropLastCR (l : Bytes) : Bytes :=
  match l.reverse with
  | 13 :: r => r.reverse
  | _ => l

/-- `trim_end_matches(['\n', '\r'])` on a line whose `\n` is already gone -/
def dropAllCR (l : Bytes) : Bytes := (l.reverse.dropWhile (· = 13)).reverse

/-- one log line as the writer issues it -/
def lineBytes (it : MItem) : Bytes := utf8Encode it.toLine ++ [10]

/-- a line read back: `none` = not an item (skipped by the reader): not valid UTF-8 (`read_line` / `lines()` report
`InvalidData`, which the reader skips) or refused by `MetricItem::from_string` -/
def parseLine (l : Bytes) : Option MItem := (decodeUtf8 l).bind MItem.fromLine

/-! ## the directory -/

structure FileId where
  day : Nat
  no : Nat
  deriving DecidableEq, Repr, Inhabited

def FileId.lt (a b : FileId) : Bool := a.day < b.day || (a.day == b.day && a.no < b.no)

abbrev Dir := List (FileId × Bytes)

def Dir.get? (d : Dir) (f : FileId) : Option Bytes := (d.find? (·.1 = f)).map (·.2)
def Dir.erase (d : Dir) (f : FileId) : Dir := d.filter (·.1 ≠ f)
/-- `File::create`: a new empty file, or the existing one truncated -/
def Dir.create (d : Dir) (f : FileId) : Dir := d.erase f ++ [(f, [])]
def Dir.append (d : Dir) (f : FileId) (bs : Bytes) : Dir := d.map (fun p => if p.1 = f then (p.1, p.2 ++ bs) else p)

structure FS where
  logs : Dir := []
  idxs : Dir := []
  deriving Repr, Inhabited

inductive Act
  | create (isIdx : Bool) (f : FileId)
  | append (isIdx : Bool) (f : FileId) (bs : Bytes)
  | remove (isIdx : Bool) (f : FileId)
  deriving Repr, DecidableEq, Inhabited

def FS.apply (fs : FS) : Act → FS
  | .create false f => { fs with logs := fs.logs.create f }
  | .create true f => { fs with idxs := fs.idxs.create f }
  | .append false f bs => { fs with logs := fs.logs.append f bs }
  | .append true f bs => { fs with idxs := fs.idxs.append f bs }
  | .remove false f => { fs with logs := fs.logs.erase f }
  | .remove true f => { fs with idxs := fs.idxs.erase f }

def FS.applyAll (fs : FS) (acts : List Act) : FS := acts.foldl FS.apply fs

/-- crash states: the part of an action that is on disk when the writer dies after `j` bytes of it (only an append can be cut) -/
def Act.cut : Act → Nat → List Act
  | .append i f bs, j => if j = 0 then [] else [.append i f (bs.take j)]
  | _, _ => []

/-- the first `k` actions and `j` bytes of the next one -/
def crashPrefix (acts : List Act) (k j : Nat) : List Act :=
  acts.take k ++ (match acts[k]? with | some a => a.cut j | none => [])

def insertId (f : FileId) : List FileId → List FileId
  | [] => [f]
  | g :: gs => if f.lt g then f :: g :: gs else g :: insertId f gs

/-- `list_metric_files`: the log files (never the `.idx` files), sorted by `filename_comparator` -/
def FS.listLogs (fs : FS) : List FileId := (fs.logs.map (·.1)).foldr insertId []

/-! ## writer -/

structure Writer where
  maxSize : Nat
  maxFiles : Nat
  latest : Nat               -- `latest_op_sec`
  cur : Option FileId        -- the two open handles
  deriving Repr, Inhabited

def dayOfSec (sec : Nat) : Nat := sec / 86400

/-- `next_file_name_of_time`: same-day files sorted; none → no number, else the last one's number + 1 -/
def nextFileId (fs : FS) (day : Nat) : FileId :=
  match (fs.listLogs.filter (·.day = day)).getLast? with
  | none => ⟨day, 0⟩
  | some l => ⟨day, l.no + 1⟩

/-- `remove_deprecated_files` -/
def removeDeprecated (fs : FS) (maxFiles : Nat) : List Act :=
  let files := fs.listLogs
  if files.length ≥ maxFiles then
    (files.take (files.length - maxFiles + 1)).flatMap (fun f => [Act.remove false f, Act.remove true f])
  else []

/-- `roll_to_next_file` = `next_file_name_of_time` + `close_cur_and_new_file` -/
def rollActs (fs : FS) (maxFiles : Nat) (tsMs : Nat) : FileId × List Act :=
  let f := nextFileId fs (dayOfSec (tsMs / 1000))
  (f, removeDeprecated fs maxFiles ++ [Act.create false f, Act.create true f])

/-- `DefaultMetricLogWriter::new` + `initialize` -/
def Writer.new (fs : FS) (maxSize maxFiles nowMs : Nat) : Option (Writer × List Act) :=
  if maxSize = 0 ∨ maxFiles = 0 then none
  else
    let (f, acts) := rollActs fs maxFiles nowMs
    some ({ maxSize := maxSize, maxFiles := maxFiles, latest := nowMs / 1000, cur := some f }, acts)

inductive WriteRes
  | ok | err
  deriving Repr, DecidableEq, Inhabited

/-- the part of `write` after a possible day roll-over: the index entry of a new second (or of the first lines of a file), the
lines, and the roll-over by size -/
def Writer.writeTail (w : Writer) (fs1 : FS) (cur1 : FileId) (ts : Nat) (items : List MItem) : Writer × List Act :=
  let sec := ts / 1000
  let pos := ((fs1.logs.get? cur1).getD []).length
  let acts2 := if sec > w.latest ∨ pos = 0 then [Act.append true cur1 (be64 sec), Act.append true cur1 (be64 pos)] else []
  let acts3 := items.map (fun it => Act.append false cur1 (lineBytes { it with ts := ts }))
  let fs3 := (fs1.applyAll acts2).applyAll acts3
  let len := ((fs3.logs.get? cur1).getD []).length
  let r4 := if len ≥ w.maxSize then rollActs fs3 w.maxFiles ts else (cur1, [])
  ({ w with latest := max w.latest sec, cur := some r4.1 }, acts2 ++ acts3 ++ r4.2)

/-- `DefaultMetricLogWriter::write` (the writer stamps the items with `ts`) -/
def Writer.write (w : Writer) (fs : FS) (ts : Nat) (items : List MItem) : Writer × List Act × WriteRes :=
  if items.isEmpty then (w, [], .ok)
  else if ts = 0 then (w, [], .err)
  else
    match w.cur with
    | none => (w, [], .err)
    | some cur0 =>
      let sec := ts / 1000
      if sec < w.latest then (w, [], .ok)
      else
        -- a new day: roll first, so that the index entry goes to the file that gets the lines
        let r1 := if sec > w.latest ∧ dayOfSec sec > dayOfSec w.latest then rollActs fs w.maxFiles ts else (cur0, [])
        let t := w.writeTail (fs.applyAll r1.2) r1.1 ts items
        (t.1, r1.2 ++ t.2, .ok)

/-! ## reader -/

/-- `(items, should_continue)` -/
structure ReadRes where
  items : List MItem
  cont : Bool
  deriving Repr, Inhabited

def MAX_ITEM_AMOUNT : Nat := 100000

/-- the loop of `read_metrics_one_file_by_end_time` over the lines after the seek -/
def rangeLoop (beginSec endSec : Nat) (res : List Char) (prev : Nat) : List Bytes → List MItem → ReadRes
  | [], acc => ⟨acc.reverse, true⟩
  | l :: ls, acc =>
    match parseLine (dropLastCR l) with
    | none => rangeLoop beginSec endSec res prev ls acc
    | some it =>
      let s := it.ts / 1000
      if s < beginSec ∨ s > endSec then ⟨acc.reverse, false⟩
      else
        let acc' := if res.isEmpty ∨ res = it.resource then it :: acc else acc
        if prev + acc'.length ≥ MAX_ITEM_AMOUNT then ⟨acc'.reverse, false⟩
        else rangeLoop beginSec endSec res prev ls acc'

def rangeOneFile (log : Bytes) (offset beginSec endSec : Nat) (res : List Char) (prev : Nat) : ReadRes :=
  rangeLoop beginSec endSec res prev (splitLines (log.drop offset)) []

/-- the loop of `read_metrics_in_one_file` -/
def linesLoop (maxLines prev : Nat) : List Bytes → Nat → List MItem → ReadRes
  | [], _, acc => ⟨acc.reverse, decide (prev + acc.length < maxLines)⟩
  | l :: ls, lastSec, acc =>
    match parseLine (dropAllCR l) with
    | none => linesLoop maxLines prev ls lastSec acc
    | some it =>
      let s := it.ts / 1000
      if prev + acc.length ≥ maxLines ∧ s ≠ lastSec then ⟨acc.reverse, false⟩
      else linesLoop maxLines prev ls s (it :: acc)

def linesOneFile (log : Bytes) (offset maxLines lastSec prev : Nat) : ReadRes :=
  linesLoop maxLines prev (splitLines (log.drop offset)) lastSec []

def latestSecond (items : List MItem) : Nat :=
  match items.getLast? with
  | none => 0
  | some it => it.ts / 1000

/-- the continuation loops of `read_metrics_by_end_time` / `read_metrics` over the following files (from offset 0) -/
def rangeRest (fs : FS) (beginSec endSec : Nat) (res : List Char) : List FileId → List MItem → Option (List MItem)
  | [], items => some items
  | f :: rest, items =>
    match fs.logs.get? f with
    | none => none          -- the file cannot be opened
    | some log =>
      let r := rangeOneFile log 0 beginSec endSec res items.length
      if r.cont then rangeRest fs beginSec endSec res rest (items ++ r.items) else some (items ++ r.items)

def linesRest (fs : FS) (maxLines : Nat) : List FileId → List MItem → Option (List MItem)
  | [], items => some items
  | f :: rest, items =>
    if items.length ≥ maxLines then some items
    else
      match fs.logs.get? f with
      | none => none
      | some log =>
        let r := linesOneFile log 0 maxLines (latestSecond items) items.length
        if r.cont then linesRest fs maxLines rest (items ++ r.items) else some (items ++ r.items)

/-- `read_metrics_by_end_time(name_list, file_no, offset, ..)`; `files` = `name_list[file_no..]`; `none` = `Err` -/
def readRange (fs : FS) (files : List FileId) (offset beginMs endMs : Nat) (res : List Char) : Option (List MItem) :=
  match files with
  | [] => some []
  | f :: rest =>
    match fs.logs.get? f with
    | none => none
    | some log =>
      let r := rangeOneFile log offset (beginMs / 1000) (endMs / 1000) res 0
      if r.cont then rangeRest fs (beginMs / 1000) (endMs / 1000) res rest r.items else some r.items

def readLines (fs : FS) (files : List FileId) (offset maxLines : Nat) : Option (List MItem) :=
  match files with
  | [] => some []
  | f :: rest =>
    match fs.logs.get? f with
    | none => none
    | some log =>
      let r := linesOneFile log offset maxLines 0 0
      if r.cont then linesRest fs maxLines rest r.items else some r.items

/-! ## searcher -/

/-- `FilePosition`; the cached offset into the index is never advanced by the code (always 0) -/
structure Cache where
  file : Option FileId := none
  curSec : Nat := 0
  deriving Repr, Inhabited

/-- the entry loop of `find_offset_to_start`: the first entry with `sec ≥ beginSec`; `none` when there is none, or when
the entry that would decide is torn -/
def findEntry : Bytes → Nat → Option (Nat × Nat)
  | s0 :: s1 :: s2 :: s3 :: s4 :: s5 :: s6 :: s7 :: o0 :: o1 :: o2 :: o3 :: o4 :: o5 :: o6 :: o7 :: rest, b =>
    let sec := unbe8 s0 s1 s2 s3 s4 s5 s6 s7
    if sec ≥ b then some (sec, unbe8 o0 o1 o2 o3 o4 o5 o6 o7) else findEntry rest b
  | _, _ => none

/-- `is_position_in_time_for(..).unwrap_or(false)` -/
def cacheOk (fs : FS) (c : Cache) (beginMs : Nat) : Bool :=
  if beginMs / 1000 < c.curSec then false
  else
    match c.file with
    | none => false
    | some f =>
      match fs.idxs.get? f with
      | none => false
      | some idx =>
        match unbe64 idx with
        | none => false
        | some sec => sec == c.curSec

/-- the files `search_offset_and_read` walks: from the cached file when the cache applies, else all of them -/
def startFiles (fs : FS) (c : Cache) (beginMs : Nat) : List FileId :=
  let files := fs.listLogs
  if cacheOk fs c beginMs then
    match c.file with
    | some f => if files.contains f then files.dropWhile (· ≠ f) else files
    | none => files
  else files

/-- the loop of `search_offset_and_read`: the first file with an index entry at or after the begin second -/
def findStart (fs : FS) (beginSec : Nat) : List FileId → Option (List FileId × Nat × Nat)
  | [] => none
  | f :: rest =>
    match (fs.idxs.get? f).bind (findEntry · beginSec) with
    | some (sec, off) => some (f :: rest, sec, off)
    | none => findStart fs beginSec rest

/-- `find_by_time_and_resource`; result `none` = `Err` -/
def searchRange (fs : FS) (c : Cache) (beginMs endMs : Nat) (res : List Char) : Cache × Option (List MItem) :=
  match findStart fs (beginMs / 1000) (startFiles fs c beginMs) with
  | none => (c, some [])
  | some (files, sec, off) => ({ file := files.head?, curSec := sec }, readRange fs files off beginMs endMs res)

/-- `find_from_time_with_max_lines` -/
def searchLines (fs : FS) (c : Cache) (beginMs maxLines : Nat) : Cache × Option (List MItem) :=
  match findStart fs (beginMs / 1000) (startFiles fs c beginMs) with
  | none => (c, some [])
  | some (files, sec, off) => ({ file := files.head?, curSec := sec }, readLines fs files off maxLines)

/-! ## Spec (what a search has to return), over the list of items currently held by the log, in write order -/

/-- what an item looks like after the line round trip (C18 `line_roundtrip`): `|` in the name replaced -/
def stored (it : MItem) : MItem := { it with resource := sanitize it.resource, rtype := rtypeOfU8 it.rtype }

/-- the item's second lies in the window of seconds -/
def inWin (bs es : Nat) (it : MItem) : Bool := decide (bs ≤ it.ts / 1000) && decide (it.ts / 1000 ≤ es)
/-- no resource asked for, or this one -/
def resMatch (res : List Char) (it : MItem) : Bool := res.isEmpty || decide (res = it.resource)

def inRange (beginMs endMs : Nat) (res : List Char) (it : MItem) : Bool :=
  inWin (beginMs / 1000) (endMs / 1000) it && resMatch res it

def specRange (held : List MItem) (beginMs endMs : Nat) (res : List Char) : List MItem :=
  held.filter (inRange beginMs endMs res)

/-- the items from the begin second on -/
def fromSec (held : List MItem) (beginMs : Nat) : List MItem := held.filter (fun it => beginMs / 1000 ≤ it.ts / 1000)

/-- line-limited search: a prefix of `fromSec`, at least `n` lines when there are that many, never going on into a
second after the one in which the limit was reached -/
def specLinesOk (held : List MItem) (beginMs n : Nat) (result : List MItem) : Bool :=
  let l := fromSec held beginMs
  result == l.take result.length &&
  (result.length ≥ min n l.length) &&
  (match n, l[n - 1]? with
   | 0, _ => result.isEmpty
   | _ + 1, some last => result.all (fun it => it.ts / 1000 ≤ last.ts / 1000)
   | _, none => true)

end Sentinel.MLog
