//! C18 harness: the same executor as harness/src/c18.rs, linked against sentinel-core with the `ds_consul` feature so that
//! rule documents are parsed by the real `datasource::rule_json_array_parser`.
//!
//! usage: harness-ds exec C18 < cases.ops > trace.ops
#[path = "../../harness/src/common.rs"]
mod common;
#[path = "../../harness/src/c12.rs"]
#[allow(dead_code)]
mod c12;
#[path = "../../harness/src/c18.rs"]
mod c18;

use common::*;
use std::io::{BufRead, Write};

fn main() {
    let args: Vec<String> = std::env::args().collect();
    if args.len() < 3 || args[1] != "exec" || args[2] != "C18" {
        eprintln!("usage: harness-ds exec C18 < ops > trace");
        std::process::exit(2);
    }
    let stdin = std::io::stdin();
    let stdout = std::io::stdout();
    let mut out = std::io::BufWriter::new(stdout.lock());
    std::panic::set_hook(Box::new(|_| {}));
    let mut exec: Option<Box<dyn CaseExec>> = None;
    let mut case_no: u64 = 0;
    for line in stdin.lock().lines() {
        let line = line.unwrap();
        let line = match line.find(" -> ") {
            Some(i) => line[..i].to_string(),
            None => line,
        };
        let t = line.trim();
        if t.is_empty() || t.starts_with('#') {
            continue;
        }
        if t.starts_with("case ") || t == "case" {
            if let Some(mut e) = exec.take() {
                e.finish();
            }
            case_no += 1;
            writeln!(out, "{}", t).unwrap();
            exec = Some(Box::new(c18::Exec::new(case_no)));
            continue;
        }
        if exec.is_none() {
            case_no += 1;
            exec = Some(Box::new(c18::Exec::new(case_no)));
        }
        let op = Op::parse(t);
        let e = exec.as_mut().unwrap();
        let obs = match std::panic::catch_unwind(std::panic::AssertUnwindSafe(|| e.step(&op))) {
            Ok(o) => o,
            Err(p) => format!("panic {}", panic_msg(&p).replace('\n', " ")),
        };
        writeln!(out, "{} -> {}", t, obs).unwrap();
    }
    if let Some(mut e) = exec.take() {
        e.finish();
    }
    out.flush().unwrap();
}
